//! The ~60 lines of orchestration of lexgen's `lib.rs::lexer` re-expressed outside a proc-macro
//! crate (lib.rs itself cannot be compiled here: it is the `#[proc_macro]` root). Bound back to
//! the real macro by dump equality on every lexer the end-to-end explorer compiles.

use crate::ast::{self, Binding, Lexer, Regex, RegexCtx, Rule, RuleOrBinding, SingleRule, Var};
use crate::collections::Map;
use crate::dfa::{self, StateIdx as DfaStateIdx, DFA};
use crate::nfa::NFA;
use crate::nfa_to_dfa::nfa_to_dfa;
use crate::right_ctx::RightCtxDFAs;
use crate::semantic_action_table::{SemanticActionIdx, SemanticActionTable};
use crate::verif_dump;

use std::collections::hash_map::Entry;
use syn::parse::Parser;

pub struct Compiled {
    pub dump: String,
    /// token text of the generated code (only when asked for)
    pub code: Option<String>,
}

pub fn compile_text(src: &str, want_code: bool) -> Result<Compiled, String> {
    let mut semantic_action_table = SemanticActionTable::new();

    let Lexer { attrs, visibility, type_name, user_state_type, token_type, rules: top_level_rules } =
        match ast::make_lexer_parser(&mut semantic_action_table).parse_str(src) {
            Ok(lexer) => lexer,
            Err(error) => return Err(format!("parse error: {error}")),
        };

    let mut dfas: Map<String, dfa::StateIdx> = Default::default();
    let mut right_ctx_dfas = RightCtxDFAs::new();
    let mut bindings: Map<Var, Regex> = Default::default();
    let mut init_dfa: Option<DFA<DfaStateIdx, SemanticActionIdx>> = None;
    let mut user_error_type: Option<syn::Type> = None;
    let mut unnamed_nfa: NFA<SemanticActionIdx> = NFA::new();

    {
        let mut named = false;
        let mut unnamed = false;
        for rule in &top_level_rules {
            match rule {
                Rule::RuleOrBinding(RuleOrBinding::Rule { .. }) => unnamed = true,
                Rule::RuleSet { .. } => named = true,
                _ => {}
            }
        }
        if named && unnamed {
            panic!("Unnamed rules cannot be mixed with named rules.");
        }
    }

    for rule in top_level_rules {
        match rule {
            Rule::ErrorType { ty } => match user_error_type {
                None => user_error_type = Some(ty),
                Some(_) => panic!("Error type defined multiple times"),
            },
            Rule::RuleOrBinding(RuleOrBinding::Binding(Binding { var, re })) => match bindings.entry(var) {
                Entry::Occupied(entry) => panic!("Variable {:?} is defined multiple times", entry.key().0),
                Entry::Vacant(entry) => {
                    entry.insert(re);
                }
            },
            Rule::RuleOrBinding(RuleOrBinding::Rule(SingleRule { lhs, rhs })) => {
                compile_single_rule(&mut unnamed_nfa, lhs, rhs, &bindings, &mut right_ctx_dfas);
            }
            Rule::RuleSet { name, rules } => {
                let dfa_idx = if name == "Init" {
                    let dfa = init_dfa.insert(compile_rule_set(rules, bindings.clone(), &mut right_ctx_dfas));
                    dfa.initial_state()
                } else {
                    let dfa = init_dfa.as_mut().expect("First rule set should be named \"Init\"");
                    let dfa_ = compile_rule_set(rules, bindings.clone(), &mut right_ctx_dfas);
                    dfa.add_dfa(dfa_)
                };
                if dfas.insert(name.to_string(), dfa_idx).is_some() {
                    panic!("Rule set {:?} is defined multiple times", name.to_string());
                }
            }
        }
    }

    let mut dfa = match init_dfa {
        Some(init_dfa) => init_dfa,
        None => nfa_to_dfa(&unnamed_nfa),
    };

    dfa::update_backtracks(&mut dfa);

    let dfa = dfa::simplify::simplify(dfa, &mut dfas);

    let dump = verif_dump::dump_string(&type_name.to_string(), &dfa, &right_ctx_dfas, &dfas);

    let code = if want_code {
        Some(
            dfa::codegen::generate(dfa, &right_ctx_dfas, semantic_action_table, user_state_type, user_error_type, dfas, type_name, token_type, visibility, attrs)
                .to_string(),
        )
    } else {
        None
    };

    Ok(Compiled { dump, code })
}

fn compile_single_rule(nfa: &mut NFA<SemanticActionIdx>, lhs: RegexCtx, rhs: SemanticActionIdx, bindings: &Map<Var, Regex>, right_ctx_dfas: &mut RightCtxDFAs<DfaStateIdx>) {
    let RegexCtx { re, right_ctx } = lhs;
    let right_ctx = right_ctx.as_ref().map(|right_ctx| right_ctx_dfas.new_right_ctx(bindings, right_ctx));
    nfa.add_regex(bindings, &re, right_ctx, rhs);
}

fn compile_rule_set(rules: Vec<RuleOrBinding>, mut bindings: Map<Var, Regex>, right_ctx_dfas: &mut RightCtxDFAs<DfaStateIdx>) -> DFA<DfaStateIdx, SemanticActionIdx> {
    let mut nfa: NFA<SemanticActionIdx> = NFA::new();
    for rule in rules {
        match rule {
            RuleOrBinding::Rule(SingleRule { lhs, rhs }) => compile_single_rule(&mut nfa, lhs, rhs, &bindings, right_ctx_dfas),
            RuleOrBinding::Binding(Binding { var, re }) => match bindings.entry(var) {
                Entry::Occupied(entry) => panic!("Variable {:?} is defined multiple times", entry.key().0),
                Entry::Vacant(entry) => {
                    entry.insert(re);
                }
            },
        }
    }
    nfa_to_dfa(&nfa)
}

/// Source text of a `lexer!` body for a spec, as the end-to-end generator prints it.
pub fn lexer_text(spec: &refmodel::spec::Spec, name: &str) -> String {
    let mut s = format!("#[derive(Clone)]\npub {name}(H) -> usize;\n");
    if spec.has_fallible() {
        s += "type Error = u32;\n";
    }
    s += &spec.print_rules("");
    s
}
