// generated from /repo/crates/lexgen/src/lib.rs by lib/link_sources.py
mod ast;
mod builtin;
mod char_ranges;
mod collections;
mod dfa;
mod display;
mod nfa;
mod nfa_to_dfa;
mod range_map;
mod regex_to_nfa;
mod right_ctx;
mod semantic_action_table;
#[cfg(lexgen_verif)]
mod verif_dump;
