//! P — the in-process pipeline explorer. lexgen's own source files are compiled into this crate
//! (symlinks created by lib/link_sources.py; module list in px_mods.rs).
#![allow(dead_code, unused, clippy::all)]

include!("px_mods.rs");

mod px_compile;
mod px_special;

use refmodel::dump::Dump;
use refmodel::families::{groups, p_family};
use refmodel::product::{self, Stats, ViolKind};
use refmodel::serde_json::{self, json, Value};
use refmodel::spec::Spec;
use std::collections::HashSet;
use std::hash::{Hash, Hasher};
use std::io::{BufRead, Write};
use std::sync::atomic::{AtomicI64, AtomicU64, Ordering};
use std::time::Instant;

static CUR_JOB: AtomicI64 = AtomicI64::new(-1);
static JOB_STARTED_MS: AtomicU64 = AtomicU64::new(0);

fn now_ms() -> u64 {
    static T0: std::sync::OnceLock<Instant> = std::sync::OnceLock::new();
    T0.get_or_init(Instant::now).elapsed().as_millis() as u64
}

fn rss_mb() -> u64 {
    std::fs::read_to_string("/proc/self/statm").ok().and_then(|s| s.split(' ').nth(1).and_then(|p| p.parse::<u64>().ok())).map(|p| p * 4096 / (1 << 20)).unwrap_or(0)
}

/// In a worker: a watchdog thread that ends the process when one definition takes too long or
/// uses too much memory, after printing which one. Non-termination of the pipeline is thereby
/// an observation, not a harness failure.
fn start_watchdog(limit_ms: u64, limit_mb: u64) {
    std::thread::spawn(move || loop {
        std::thread::sleep(std::time::Duration::from_millis(200));
        let job = CUR_JOB.load(Ordering::SeqCst);
        if job < 0 {
            continue;
        }
        let started = JOB_STARTED_MS.load(Ordering::SeqCst);
        let (hang, mem) = (now_ms().saturating_sub(started) > limit_ms, rss_mb() > limit_mb);
        if hang || mem {
            let out = std::io::stdout();
            let mut l = out.lock();
            let _ = writeln!(l, "{} {}", if hang { "HANG" } else { "MEM" }, job);
            let _ = l.flush();
            std::process::exit(3);
        }
    });
}

fn hash_str(s: &str) -> u64 {
    let mut h = std::collections::hash_map::DefaultHasher::new();
    s.hash(&mut h);
    h.finish()
}

fn kind_name(k: &ViolKind) -> &'static str {
    match k {
        ViolKind::Viability => "viability",
        ViolKind::Accept => "accept",
        ViolKind::Rewind => "rewind",
        ViolKind::EoiNonTerminal => "eoi",
        ViolKind::Ctx => "ctx",
        ViolKind::Entry => "entry",
        ViolKind::Foreign => "foreign",
    }
}

#[derive(Default)]
struct Agg {
    defs: u64,
    stats: Stats,
    capped: u64,
    panics: Vec<Value>,
    viols: Vec<Value>,
    viol_defs: u64,
    by_kind: std::collections::BTreeMap<String, u64>,
    dump_hashes: HashSet<u64>,
    max_states: u64,
    compile_us: u64,
    samples: Vec<Value>,
    /// (index, hash of generated code, code length, micro seconds)
    code_hashes: Vec<(usize, u64, u64, u64)>,
}

impl Agg {
    fn to_json(&self) -> Value {
        json!({
            "defs": self.defs,
            "states": self.stats.states,
            "transitions": self.stats.transitions,
            "ctx_states": self.stats.ctx_states,
            "rewind_obligations": self.stats.rewind_obligations,
            "capped": self.capped,
            "panics": self.panics,
            "violations": self.viols,
            "viol_defs": self.viol_defs,
            "by_kind": self.by_kind,
            "dump_hashes": self.dump_hashes.iter().collect::<Vec<_>>(),
            "max_states": self.max_states,
            "samples": self.samples,
            "compile_us": self.compile_us,
            "code_hashes": self.code_hashes,
        })
    }
}

/// `name` is a P family, or `e2e:<prop>:<tier>` for the flattened end-to-end groups.
fn family_by_name(name: &str) -> refmodel::families::PFamily {
    if let Some(rest) = name.strip_prefix("e2e:") {
        let (prop, tier) = rest.split_once(':').expect("e2e:<prop>:<tier>");
        let gs = groups(prop, tier);
        let flat = refmodel::e2e::flatten(&gs);
        let specs: Vec<Spec> = flat.iter().map(|(g, i)| gs[*g].specs[*i].clone()).collect();
        return refmodel::families::PFamily { len: specs.len(), get: Box::new(move |i| specs[i].clone()) };
    }
    p_family(name).unwrap_or_else(|| panic!("unknown family {name}"))
}

/// screen / determinism job: run the whole pipeline including code generation, twice.
fn codegen_one(spec: &Spec, i: usize, agg: &mut Agg) {
    let text = px_compile::lexer_text(spec, "L");
    let t0 = Instant::now();
    let r = std::panic::catch_unwind(|| (px_compile::compile_text(&text, true), px_compile::compile_text(&text, true)));
    let us = t0.elapsed().as_micros() as u64 / 2;
    agg.defs += 1;
    agg.compile_us += us;
    match r {
        Err(e) => {
            let msg = e.downcast_ref::<String>().cloned().or_else(|| e.downcast_ref::<&str>().map(|s| s.to_string())).unwrap_or_default();
            agg.panics.push(json!({"i": i, "definition": spec.describe(), "panic": msg}));
        }
        Ok((Ok(a), Ok(b))) => {
            let (ca, cb) = (a.code.unwrap(), b.code.unwrap());
            if ca != cb || a.dump != b.dump {
                agg.viols.push(json!({"i": i, "family": spec.family, "definition": spec.print_rules(""), "kind": "nondeterministic", "detail": "two expansions in one process differ"}));
                agg.viol_defs += 1;
            }
            agg.code_hashes.push((i, hash_str(&ca), ca.len() as u64, us));
            agg.dump_hashes.insert(hash_str(&a.dump));
        }
        Ok((a, b)) => {
            let e = a.err().or(b.err()).unwrap_or_default();
            agg.panics.push(json!({"i": i, "definition": spec.describe(), "panic": e}));
        }
    }
}

fn explore_one(spec: &Spec, i: usize, agg: &mut Agg, cap: u64) {
    let text = px_compile::lexer_text(spec, "L");
    let r = std::panic::catch_unwind(|| px_compile::compile_text(&text, false));
    agg.defs += 1;
    let dump_text = match r {
        Err(e) => {
            let msg = e.downcast_ref::<String>().cloned().or_else(|| e.downcast_ref::<&str>().map(|s| s.to_string())).unwrap_or_default();
            if agg.panics.len() < 20 {
                agg.panics.push(json!({"i": i, "definition": spec.describe(), "panic": msg}));
            } else {
                agg.panics.push(json!({"i": i}));
            }
            return;
        }
        Ok(Err(e)) => {
            agg.panics.push(json!({"i": i, "definition": spec.describe(), "panic": e}));
            return;
        }
        Ok(Ok(c)) => c.dump,
    };
    agg.dump_hashes.insert(hash_str(&dump_text));
    let dump = match Dump::parse(&dump_text) {
        Ok(d) => d,
        Err(e) => {
            agg.panics.push(json!({"i": i, "definition": spec.describe(), "panic": format!("dump does not parse: {e}")}));
            return;
        }
    };
    let before = agg.stats.states + agg.stats.ctx_states;
    let mut st = Stats::default();
    let viols = product::explore_spec(spec, &dump, &mut st, cap);
    agg.stats.states += st.states;
    agg.stats.transitions += st.transitions;
    agg.stats.ctx_states += st.ctx_states;
    agg.stats.rewind_obligations += st.rewind_obligations;
    if st.capped {
        agg.capped += 1;
    }
    agg.max_states = agg.max_states.max(st.states + st.ctx_states);
    if agg.samples.len() < 2 && st.rewind_obligations > 0 {
        agg.samples.push(json!({"i": i, "definition": spec.describe(), "product_states": st.states, "transitions": st.transitions, "rewind_obligations": st.rewind_obligations, "dfa_states": dump.states.len()}));
    }
    if !viols.is_empty() {
        agg.viol_defs += 1;
        let mut kinds = HashSet::new();
        for v in &viols {
            if kinds.insert(kind_name(&v.kind)) {
                *agg.by_kind.entry(kind_name(&v.kind).to_string()).or_default() += 1;
                if agg.viols.len() < 40 {
                    agg.viols.push(json!({
                        "i": i, "family": spec.family, "definition": spec.print_rules(""), "kind": kind_name(&v.kind), "set": v.set,
                        "path": v.show_path(), "input": v.path_string(), "detail": v.detail,
                    }));
                }
            }
        }
    }
}

/// worker: explore definitions start, start+step, … of a family; prints one JSON line at the end.
fn worker(family: &str, start: usize, step: usize, limit: usize, cap: u64, skip: &HashSet<usize>, job: &str) {
    start_watchdog(10_000, 6_000);
    let fam = family_by_name(family);
    std::panic::set_hook(Box::new(|_| {}));
    let mut agg = Agg::default();
    let mut i = start;
    let end = fam.len.min(limit);
    while i < end {
        if skip.contains(&i) {
            i += step;
            continue;
        }
        CUR_JOB.store(i as i64, Ordering::SeqCst);
        JOB_STARTED_MS.store(now_ms(), Ordering::SeqCst);
        let spec = (fam.get)(i);
        if job == "product" {
            explore_one(&spec, i, &mut agg, cap);
        } else {
            codegen_one(&spec, i, &mut agg);
        }
        i += step;
        // partial results survive a later hang: checkpoint every 512 definitions
        if agg.defs % 512 == 0 {
            CUR_JOB.store(-1, Ordering::SeqCst);
            println!("PART {}", agg.to_json());
            println!("CKPT {}", i);
            agg = Agg::default();
        }
    }
    CUR_JOB.store(-1, Ordering::SeqCst);
    println!("PART {}", agg.to_json());
    println!("DONE");
}

fn merge(into: &mut Value, part: &Value) {
    for k in ["defs", "states", "transitions", "ctx_states", "rewind_obligations", "capped", "viol_defs", "compile_us"] {
        into[k] = json!(into[k].as_u64().unwrap_or(0) + part[k].as_u64().unwrap_or(0));
    }
    into["max_states"] = json!(into["max_states"].as_u64().unwrap_or(0).max(part["max_states"].as_u64().unwrap_or(0)));
    for k in ["panics", "violations", "dump_hashes", "samples", "code_hashes"] {
        let mut v = into[k].as_array().cloned().unwrap_or_default();
        v.extend(part[k].as_array().cloned().unwrap_or_default());
        if k == "samples" {
            v.truncate(3);
        }
        if k == "violations" {
            v.truncate(60);
        }
        into[k] = json!(v);
    }
    let mut bk = into["by_kind"].as_object().cloned().unwrap_or_default();
    if let Some(o) = part["by_kind"].as_object() {
        for (k, v) in o {
            let cur = bk.get(k).and_then(|x| x.as_u64()).unwrap_or(0);
            bk.insert(k.clone(), json!(cur + v.as_u64().unwrap_or(0)));
        }
    }
    into["by_kind"] = json!(bk);
}

/// supervisor: `n` workers over one family; restarts a worker after a hang, recording it.
fn supervise(family: &str, n: usize, limit: usize, cap: u64, job: &str) -> Value {
    let exe = std::env::current_exe().unwrap();
    let fam = family_by_name(family);
    let total = fam.len.min(limit);
    let t0 = Instant::now();
    let results: Vec<(Value, Vec<Value>)> = std::thread::scope(|s| {
        let hs: Vec<_> = (0..n)
            .map(|w| {
                let exe = exe.clone();
                let fam = &fam;
                s.spawn(move || {
                    let mut acc = json!({});
                    let mut hangs: Vec<Value> = vec![];
                    let mut start = w;
                    let mut skip: Vec<usize> = vec![];
                    loop {
                        if start >= total {
                            break;
                        }
                        let out = std::process::Command::new(&exe)
                            .args(["worker", family, &start.to_string(), &n.to_string(), &limit.to_string(), &cap.to_string(), &skip.iter().map(|x| x.to_string()).collect::<Vec<_>>().join(","), job])
                            .output()
                            .expect("spawn worker");
                        let text = String::from_utf8_lossy(&out.stdout);
                        let mut done = false;
                        let mut stuck: Option<(String, usize)> = None;
                        for line in text.lines() {
                            if let Some(j) = line.strip_prefix("PART ") {
                                if let Ok(v) = serde_json::from_str::<Value>(j) {
                                    merge(&mut acc, &v);
                                }
                            } else if let Some(i) = line.strip_prefix("CKPT ") {
                                start = i.parse().unwrap();
                            } else if line == "DONE" {
                                done = true;
                            } else if let Some(i) = line.strip_prefix("HANG ") {
                                stuck = Some(("hang (> 10 s CPU in the macro pipeline)".into(), i.parse().unwrap()));
                            } else if let Some(i) = line.strip_prefix("MEM ") {
                                stuck = Some(("memory (> 6 GB in the macro pipeline)".into(), i.parse().unwrap()));
                            }
                        }
                        if done {
                            break;
                        }
                        match stuck {
                            Some((what, i)) => {
                                let spec = (fam.get)(i);
                                hangs.push(json!({"i": i, "what": what, "definition": spec.print_rules(""), "family": spec.family}));
                                // restart from the last checkpoint, skipping the definition that got stuck
                                skip.push(i);
                            }
                            None => {
                                hangs.push(json!({"i": -1, "what": format!("worker died: status {:?} stderr {}", out.status, String::from_utf8_lossy(&out.stderr).chars().take(400).collect::<String>())}));
                                break;
                            }
                        }
                    }
                    (acc, hangs)
                })
            })
            .collect();
        hs.into_iter().map(|h| h.join().unwrap()).collect()
    });
    let mut acc = json!({});
    let mut hangs = vec![];
    for (a, h) in results {
        merge(&mut acc, &a);
        hangs.extend(h);
    }
    let hashes: HashSet<u64> = acc["dump_hashes"].as_array().map(|a| a.iter().filter_map(|x| x.as_u64()).collect()).unwrap_or_default();
    acc["distinct_dumps"] = json!(hashes.len());
    acc.as_object_mut().unwrap().remove("dump_hashes");
    acc["hangs"] = json!(hangs);
    acc["family"] = json!(family);
    acc["family_size"] = json!(fam.len);
    acc["explored_upto"] = json!(total);
    acc["exhaustive"] = json!(total == fam.len && acc["capped"].as_u64().unwrap_or(0) == 0 && hangs.is_empty());
    acc["wall_s"] = json!(t0.elapsed().as_secs_f64());
    acc
}

/// Explore the dumps the *real macro* wrote for the lexers of an end-to-end batch, and bind this
/// crate's re-expression of lib.rs to the macro by dump equality.
fn dumps_job(dir: &str, prop: &str, tier: &str, cap: u64) -> Value {
    let gs = groups(prop, tier);
    let flat = refmodel::e2e::flatten(&gs);
    let mut agg = Agg::default();
    let mut bound = 0u64;
    let mut unbound: Vec<Value> = vec![];
    let mut missing = 0u64;
    std::panic::set_hook(Box::new(|_| {}));
    // the macro managed to expand these, so the in-process pipeline should too; if it does not
    // return, end with a HANG line rather than blocking the check
    start_watchdog(30_000, 8_000);
    for (gid, (g, i)) in flat.iter().enumerate() {
        let spec = &gs[*g].specs[*i];
        let Ok(text) = std::fs::read_to_string(format!("{dir}/L{gid}.dump")) else {
            missing += 1;
            continue;
        };
        CUR_JOB.store(gid as i64, Ordering::SeqCst);
        JOB_STARTED_MS.store(now_ms(), Ordering::SeqCst);
        // dump equality with our own orchestration
        let mine = std::panic::catch_unwind(|| px_compile::compile_text(&px_compile::lexer_text(spec, &format!("L{gid}")), false));
        match mine {
            Ok(Ok(c)) if c.dump == text => bound += 1,
            Ok(Ok(_)) => {
                if unbound.len() < 5 {
                    unbound.push(json!({"lexer": gid, "definition": spec.describe(), "what": "dump differs"}));
                } else {
                    unbound.push(json!({"lexer": gid}));
                }
            }
            _ => unbound.push(json!({"lexer": gid, "what": "in-process pipeline failed where the macro succeeded"})),
        }
        let Ok(dump) = Dump::parse(&text) else {
            agg.panics.push(json!({"i": gid, "panic": "macro dump does not parse"}));
            continue;
        };
        agg.defs += 1;
        agg.dump_hashes.insert(hash_str(&text.lines().skip(2).collect::<Vec<_>>().join("\n")));
        let mut st = Stats::default();
        let viols = product::explore_spec(spec, &dump, &mut st, cap);
        agg.stats.states += st.states;
        agg.stats.transitions += st.transitions;
        agg.stats.ctx_states += st.ctx_states;
        agg.stats.rewind_obligations += st.rewind_obligations;
        if st.capped {
            agg.capped += 1;
        }
        if !viols.is_empty() {
            agg.viol_defs += 1;
            let mut kinds = HashSet::new();
            for v in &viols {
                if kinds.insert(kind_name(&v.kind)) {
                    *agg.by_kind.entry(kind_name(&v.kind).to_string()).or_default() += 1;
                    if agg.viols.len() < 40 {
                        agg.viols.push(json!({
                            "i": gid, "family": spec.family, "definition": spec.print_rules(""), "kind": kind_name(&v.kind), "set": v.set,
                            "path": v.show_path(), "input": v.path_string(), "detail": v.detail,
                        }));
                    }
                }
            }
        }
    }
    CUR_JOB.store(-1, Ordering::SeqCst);
    let mut j = agg.to_json();
    j["distinct_dumps"] = json!(agg.dump_hashes.len());
    j.as_object_mut().unwrap().remove("dump_hashes");
    j["dumps_bound"] = json!(bound);
    j["dumps_unbound"] = json!(unbound);
    j["dumps_missing"] = json!(missing);
    j
}

fn main() {
    let a: Vec<String> = std::env::args().collect();
    let cmd = a.get(1).map(|s| s.as_str()).unwrap_or("");
    match cmd {
        "worker" => {
            let skip: HashSet<usize> = a.get(7).map(|s| s.split(',').filter(|x| !x.is_empty()).map(|x| x.parse().unwrap()).collect()).unwrap_or_default();
            worker(&a[2], a[3].parse().unwrap(), a[4].parse().unwrap(), a[5].parse().unwrap(), a[6].parse().unwrap(), &skip, a.get(8).map(|s| s.as_str()).unwrap_or("product"))
        }
        "product" => {
            // product <family> [limit] [cap] [workers]
            let limit = a.get(3).and_then(|s| s.parse().ok()).unwrap_or(usize::MAX);
            let cap = a.get(4).and_then(|s| s.parse().ok()).unwrap_or(product::DEFAULT_STATE_CAP);
            let n = a.get(5).and_then(|s| s.parse().ok()).unwrap_or(16);
            println!("{}", supervise(&a[2], n, limit, cap, "product"));
        }
        "screen" => {
            // screen <family> [workers]: whole pipeline incl. code generation, twice per definition
            let n = a.get(3).and_then(|s| s.parse().ok()).unwrap_or(16);
            let mut j = supervise(&a[2], n, usize::MAX, 0, "screen");
            // summarise code hashes: slowest, largest, and a digest over (index, hash) pairs
            let mut ch: Vec<(u64, u64, u64, u64)> = j["code_hashes"].as_array().map(|v| v.iter().map(|e| (e[0].as_u64().unwrap(), e[1].as_u64().unwrap(), e[2].as_u64().unwrap(), e[3].as_u64().unwrap())).collect()).unwrap_or_default();
            ch.sort();
            let digest = hash_str(&format!("{:?}", ch.iter().map(|c| (c.0, c.1)).collect::<Vec<_>>()));
            j["code_digest"] = json!(digest.to_string());
            j["max_code_len"] = json!(ch.iter().map(|c| c.2).max().unwrap_or(0));
            j["max_us"] = json!(ch.iter().map(|c| c.3).max().unwrap_or(0));
            let mut slow: Vec<&(u64, u64, u64, u64)> = ch.iter().filter(|c| c.3 > 2_000_000).collect();
            slow.truncate(20);
            j["slow"] = json!(slow.iter().map(|c| json!({"i": c.0, "us": c.3, "code_len": c.2})).collect::<Vec<_>>());
            j.as_object_mut().unwrap().remove("code_hashes");
            println!("{}", j);
        }
        "dumps" => {
            let cap = a.get(5).and_then(|s| s.parse().ok()).unwrap_or(product::DEFAULT_STATE_CAP);
            println!("{}", dumps_job(&a[2], &a[3], &a[4], cap));
        }
        "compile" => {
            // compile <file>: print the dump (and code with --code) for a lexer body in a file
            let text = std::fs::read_to_string(&a[2]).unwrap();
            let c = px_compile::compile_text(&text, a.get(3).map(|s| s == "--code").unwrap_or(false)).unwrap();
            print!("{}", c.dump);
            if let Some(code) = c.code {
                println!("{code}");
            }
        }
        _ => px_special::main(&a),
    }
}
