//! Special-purpose explorers (RangeMap state space, class expressions, built-in tables, parser
//! round trips, determinism, ill-formed definitions).
use refmodel::serde_json::{json, Value};

pub fn main(a: &[String]) {
    eprintln!("unknown command {:?}", a.get(1));
    std::process::exit(2);
}
