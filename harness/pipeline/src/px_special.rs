//! Special-purpose explorers (RangeMap state space, class expressions, built-in tables, parser
//! round trips).
use crate::ast;
use crate::collections::Map;
use crate::nfa::NFA;
use crate::nfa_to_dfa::nfa_to_dfa;
use crate::px_compile;
use crate::range_map::{Range, RangeMap};
use refmodel::dump::{lookup, Dump, Target};
use refmodel::iset::{self, ISet};
use refmodel::re::{self, Re};
use refmodel::serde_json::{json, Value};
use std::collections::{BTreeSet, HashMap, HashSet, VecDeque};
use std::time::Instant;

type Ranges = Vec<(u32, u32)>;

/// All sorted lists of disjoint (possibly adjacent) inclusive ranges over `0..n`.
fn range_lists(n: u32) -> Vec<Ranges> {
    fn go(from: u32, n: u32, cur: &mut Ranges, out: &mut Vec<Ranges>) {
        out.push(cur.clone());
        for s in from..n {
            for e in s..n {
                cur.push((s, e));
                go(e + 1, n, cur, out);
                cur.pop();
            }
        }
    }
    let mut out = vec![];
    go(0, n, &mut vec![], &mut out);
    out
}

fn mk_map(r: &Ranges) -> RangeMap<()> {
    RangeMap::from_non_overlapping_sorted_ranges(r.iter().map(|&(s, e)| Range { start: s, end: e, value: () }).collect())
}

fn contents<A>(m: &RangeMap<A>) -> Ranges {
    m.iter().map(|r| (r.start, r.end)).collect()
}

fn mask_of(r: &Ranges) -> u32 {
    let mut m = 0u32;
    for &(s, e) in r {
        for i in s..=e.min(31) {
            m |= 1 << i;
        }
    }
    m
}

fn well_formed(r: &Ranges) -> Option<String> {
    for &(s, e) in r {
        if s > e {
            return Some(format!("inverted range ({s},{e})"));
        }
    }
    for w in r.windows(2) {
        if w[0].1 >= w[1].0 {
            return Some(format!("ranges ({},{}) and ({},{}) overlap or are out of order", w[0].0, w[0].1, w[1].0, w[1].1));
        }
    }
    None
}

#[derive(Clone, Debug)]
enum Op {
    Insert(u32, u32),
    InsertRanges(Ranges),
    Remove(Ranges),
}

fn show_op(op: &Op) -> String {
    match op {
        Op::Insert(s, e) => format!("insert({s},{e})"),
        Op::InsertRanges(r) => format!("insert_ranges({r:?})"),
        Op::Remove(r) => format!("remove_ranges({r:?})"),
    }
}

/// (1) `RangeMap<()>`: BFS from the empty map to fixpoint; invariant in every state.
fn rangemap_unit(n: u32, viols: &mut Vec<Value>) -> Value {
    let lists = range_lists(n);
    let mut ops: Vec<Op> = vec![];
    for s in 0..n {
        for e in s..n {
            ops.push(Op::Insert(s, e));
        }
    }
    for l in &lists {
        ops.push(Op::InsertRanges(l.clone()));
        ops.push(Op::Remove(l.clone()));
    }
    let mut seen: HashMap<Ranges, (usize, Option<(Ranges, usize)>)> = HashMap::new(); // state -> (depth, parent + op index)
    let mut queue: VecDeque<Ranges> = VecDeque::new();
    seen.insert(vec![], (0, None));
    queue.push_back(vec![]);
    let mut transitions = 0u64;
    let mut max_depth = 0usize;
    let mut malformed_states = 0u64;
    while let Some(st) = queue.pop_front() {
        let depth = seen[&st].0;
        max_depth = max_depth.max(depth);
        let model = mask_of(&st);
        for (oi, op) in ops.iter().enumerate() {
            transitions += 1;
            // a malformed state is reported once and not expanded further
            let r = std::panic::catch_unwind(|| {
                let mut m = mk_map(&st);
                match op {
                    Op::Insert(s, e) => m.insert(*s, *e, (), |_, _| {}),
                    Op::InsertRanges(l) => m.insert_ranges(mk_map(l).into_iter(), |_, _| {}),
                    Op::Remove(l) => m.remove_ranges(&mk_map(l)),
                }
                contents(&m)
            });
            let expect = match op {
                Op::Insert(s, e) => model | mask_of(&vec![(*s, *e)]),
                Op::InsertRanges(l) => model | mask_of(l),
                Op::Remove(l) => model & !mask_of(l),
            };
            let path = |seen: &HashMap<Ranges, (usize, Option<(Ranges, usize)>)>| -> Vec<String> {
                let mut p = vec![show_op(op)];
                let mut cur = st.clone();
                while let Some((_, Some((par, oi)))) = seen.get(&cur) {
                    p.push(show_op(&ops[*oi]));
                    cur = par.clone();
                }
                p.reverse();
                p
            };
            match r {
                Err(_) => {
                    if viols.len() < 20 {
                        viols.push(json!({"kind": "rangemap-panic", "definition": format!("RangeMap<()> ops {:?}", path(&seen)), "input": format!("{st:?}"), "detail": "operation panicked"}));
                    }
                }
                Ok(next) => {
                    let wf = well_formed(&next);
                    let got = mask_of(&next);
                    if wf.is_some() || got != expect {
                        malformed_states += 1;
                        if viols.len() < 20 {
                            viols.push(json!({
                                "kind": "rangemap", "definition": format!("RangeMap<()> ops {:?}", path(&seen)), "input": format!("state {st:?}"),
                                "detail": format!("result {next:?}: {}; point set {got:#010b}, bitset model {expect:#010b}", wf.unwrap_or("well-formed".into())),
                            }));
                        }
                        continue;
                    }
                    if !seen.contains_key(&next) {
                        seen.insert(next.clone(), (depth + 1, Some((st.clone(), oi))));
                        queue.push_back(next);
                    }
                }
            }
        }
    }
    json!({"universe": n, "operations": ops.len(), "states": seen.len(), "transitions": transitions, "max_depth": max_depth, "bad_results": malformed_states, "fixpoint": true})
}

/// (2) `RangeMap<Set<tag>>` (the NFA's use): all operation sequences of a depth with distinct
/// tags; value at each point = union of the tags of the inserted ranges covering it.
fn rangemap_tagged(n: u32, depth: usize, viols: &mut Vec<Value>) -> Value {
    let lists = range_lists(n);
    let mut ops: Vec<Op> = vec![];
    for s in 0..n {
        for e in s..n {
            ops.push(Op::Insert(s, e));
        }
    }
    for l in &lists {
        if !l.is_empty() {
            ops.push(Op::InsertRanges(l.clone()));
            ops.push(Op::Remove(l.clone()));
        }
    }
    let mut seqs = 0u64;
    let mut states: HashSet<Vec<(u32, u32, u32)>> = HashSet::new();
    let mut idx = vec![0usize; depth];
    let merge = |a: &mut u32, b: u32| *a |= b;
    loop {
        seqs += 1;
        let r = std::panic::catch_unwind(|| {
            let mut m: RangeMap<u32> = RangeMap::new();
            let mut model = vec![0u32; n as usize];
            let mut trace = vec![];
            for (k, &oi) in idx.iter().enumerate() {
                let tag = 1u32 << k;
                match &ops[oi] {
                    Op::Insert(s, e) => {
                        m.insert(*s, *e, tag, merge);
                        for p in *s..=*e {
                            model[p as usize] |= tag;
                        }
                    }
                    Op::InsertRanges(l) => {
                        let other: RangeMap<u32> = RangeMap::from_non_overlapping_sorted_ranges(l.iter().map(|&(s, e)| Range { start: s, end: e, value: tag }).collect());
                        m.insert_ranges(other.into_iter(), merge);
                        for &(s, e) in l {
                            for p in s..=e {
                                model[p as usize] |= tag;
                            }
                        }
                    }
                    Op::Remove(l) => {
                        m.remove_ranges(&mk_map(l));
                        for &(s, e) in l {
                            for p in s..=e {
                                model[p as usize] = 0;
                            }
                        }
                    }
                }
                let c: Vec<(u32, u32, u32)> = m.iter().map(|r| (r.start, r.end, r.value)).collect();
                // invariant after every step
                let plain: Ranges = c.iter().map(|x| (x.0, x.1)).collect();
                let mut bad = well_formed(&plain);
                if bad.is_none() {
                    for p in 0..n {
                        let v = c.iter().find(|x| x.0 <= p && p <= x.1).map(|x| x.2).unwrap_or(0);
                        if v != model[p as usize] {
                            bad = Some(format!("point {p}: tags {v:#b}, model {:#b}", model[p as usize]));
                            break;
                        }
                    }
                }
                trace.push(c.clone());
                if let Some(b) = bad {
                    return Err((k, b, c));
                }
            }
            Ok(trace)
        });
        match r {
            Ok(Ok(tr)) => {
                for c in tr {
                    states.insert(c);
                }
            }
            Ok(Err((k, b, c))) => {
                if viols.len() < 20 {
                    viols.push(json!({"kind": "rangemap-tagged", "definition": format!("RangeMap<Set<tag>> ops {:?}", idx.iter().map(|i| show_op(&ops[*i])).collect::<Vec<_>>()), "input": format!("after step {k}"), "detail": format!("{b}; contents {c:?}")}));
                }
            }
            Err(_) => {
                if viols.len() < 20 {
                    viols.push(json!({"kind": "rangemap-panic", "definition": format!("RangeMap<Set<tag>> ops {:?}", idx.iter().map(|i| show_op(&ops[*i])).collect::<Vec<_>>()), "input": "", "detail": "operation panicked"}));
                }
            }
        }
        let mut k = 0;
        loop {
            if k == depth {
                return json!({"universe": n, "operations": ops.len(), "depth": depth, "sequences": seqs, "states": states.len(), "transitions": seqs * depth as u64});
            }
            idx[k] += 1;
            if idx[k] < ops.len() {
                break;
            }
            idx[k] = 0;
            k += 1;
        }
    }
}

// ------------------------------------------------------------------ class expressions

pub fn re_to_ast(r: &Re) -> ast::Regex {
    use ast::Regex as A;
    match r {
        Re::Eoi => A::EndOfInput,
        Re::Char(c) => A::Char(*c),
        Re::Str(s) => A::String(s.clone()),
        Re::Set(v) => A::CharSet(ast::CharSet(v.iter().map(|(a, b)| if a == b { ast::CharOrRange::Char(*a) } else { ast::CharOrRange::Range(*a, *b) }).collect())),
        Re::Any => A::Any,
        Re::Builtin(n) => A::Builtin(ast::Builtin(n.clone())),
        Re::Var(n) => A::Var(ast::Var(n.clone())),
        Re::Star(x) => A::ZeroOrMore(Box::new(re_to_ast(x))),
        Re::Plus(x) => A::OneOrMore(Box::new(re_to_ast(x))),
        Re::Opt(x) => A::ZeroOrOne(Box::new(re_to_ast(x))),
        Re::Cat(x, y) => A::Concat(Box::new(re_to_ast(x)), Box::new(re_to_ast(y))),
        Re::Alt(x, y) => A::Or(Box::new(re_to_ast(x)), Box::new(re_to_ast(y))),
        Re::Diff(x, y) => A::Diff(Box::new(re_to_ast(x)), Box::new(re_to_ast(y))),
    }
}

pub fn ast_to_re(r: &ast::Regex) -> Re {
    use ast::Regex as A;
    match r {
        A::EndOfInput => Re::Eoi,
        A::Char(c) => Re::Char(*c),
        A::String(s) => Re::Str(s.clone()),
        A::CharSet(cs) => Re::Set(
            cs.0.iter()
                .map(|c| match c {
                    ast::CharOrRange::Char(c) => (*c, *c),
                    ast::CharOrRange::Range(a, b) => (*a, *b),
                })
                .collect(),
        ),
        A::Any => Re::Any,
        A::Builtin(b) => Re::Builtin(b.0.clone()),
        A::Var(v) => Re::Var(v.0.clone()),
        A::ZeroOrMore(x) => Re::Star(Box::new(ast_to_re(x))),
        A::OneOrMore(x) => Re::Plus(Box::new(ast_to_re(x))),
        A::ZeroOrOne(x) => Re::Opt(Box::new(ast_to_re(x))),
        A::Concat(x, y) => Re::Cat(Box::new(ast_to_re(x)), Box::new(ast_to_re(y))),
        A::Or(x, y) => Re::Alt(Box::new(ast_to_re(x)), Box::new(ast_to_re(y))),
        A::Diff(x, y) => Re::Diff(Box::new(ast_to_re(x)), Box::new(ast_to_re(y))),
    }
}

/// Compile one class expression as the only rule (through `add_re` -> NFA -> DFA) and return the
/// set of code points state 0 accepts a transition on.
fn compiled_class(r: &Re) -> Result<ISet, String> {
    let text = format!("L -> usize;\n{} = 0,\n", re::print_min(r));
    // with code generation: a class the automaton can hold but the code generator cannot print is a failure too
    let c = std::panic::catch_unwind(|| px_compile::compile_text(&text, true)).map_err(|e| {
        format!("macro pipeline panics: {}", e.downcast_ref::<String>().cloned().or_else(|| e.downcast_ref::<&str>().map(|s| s.to_string())).unwrap_or_default())
    })??;
    let d = Dump::parse(&c.dump)?;
    let st = &d.states[0];
    let mut v: Vec<(u32, u32)> = vec![];
    // chars first, then ranges, then any: membership = some transition exists
    for (c, _) in &st.chars {
        v.push((*c, *c));
    }
    for (s, e, _) in &st.ranges {
        v.push((*s, *e));
    }
    if st.any.is_some() {
        v.push((0, 0x10FFFF));
    }
    Ok(iset::norm(v))
}

fn class_atoms(base: u32) -> Vec<Re> {
    let c = |k: u32| char::from_u32(base + k).unwrap_or_else(|| char::from_u32(base + k + 0x800).unwrap());
    vec![
        Re::Char(c(1)),
        Re::Set(vec![(c(0), c(3))]),
        Re::Set(vec![(c(2), c(5))]),
        Re::Set(vec![(c(0), c(1)), (c(4), c(7)), (c(1), c(1))]),
        Re::Set(vec![(c(1), c(2)), (c(2), c(6))]),
        Re::Set(vec![(c(0), c(0)), (c(3), c(3)), (c(6), c(7))]),
        Re::Set(vec![(c(0), c(7))]),
        Re::Any,
    ]
}

fn class_exprs(atoms: &[Re], depth: usize) -> Vec<Re> {
    let mut cur: Vec<Re> = atoms.to_vec();
    for _ in 1..depth {
        let mut next = cur.clone();
        for a in &cur {
            for b in &cur {
                next.push(re::alt(a.clone(), b.clone()));
                next.push(re::diff(a.clone(), b.clone()));
            }
        }
        cur = next;
    }
    cur
}

/// Placement of the 8-point universe on the code-point line.
fn placements() -> Vec<(&'static str, Vec<u32>)> {
    vec![
        ("ascii letters", (0x61..0x69).collect()),
        ("start of the line", (0..8).collect()),
        ("straddling the surrogate gap", vec![0xD7FC, 0xD7FD, 0xD7FE, 0xD7FF, 0xE000, 0xE001, 0xE002, 0xE003]),
        ("end of the line", (0x10FFF8..=0x10FFFF).collect()),
    ]
}

fn classexpr(depth: usize, stride: usize, viols: &mut Vec<Value>) -> Value {
    use std::sync::atomic::{AtomicU64, AtomicUsize, Ordering};
    use std::sync::Mutex;
    let total = AtomicU64::new(0);
    let queries = AtomicU64::new(0);
    let empties = AtomicU64::new(0);
    let shared: Mutex<(HashSet<ISet>, Vec<Value>, Vec<Value>)> = Mutex::new((HashSet::new(), vec![], vec![]));
    for (pname, points) in placements() {
        let c = |k: usize| char::from_u32(points[k]).unwrap();
        let atoms = vec![
            Re::Char(c(1)),
            Re::Set(vec![(c(0), c(3))]),
            Re::Set(vec![(c(2), c(5))]),
            Re::Set(vec![(c(0), c(1)), (c(4), c(7)), (c(1), c(1))]),
            Re::Set(vec![(c(1), c(2)), (c(2), c(6))]),
            Re::Set(vec![(c(0), c(0)), (c(3), c(3)), (c(6), c(7)), (c(3), c(3))]),
            Re::Set(vec![(c(0), c(7))]),
            Re::Set(vec![(c(0), c(6)), (c(2), c(3)), (c(5), c(5))]),
            Re::Any,
        ];
        let exprs = class_exprs(&atoms, depth);
        let full_upto = atoms.len() + 2 * atoms.len() * atoms.len();
        let next = AtomicUsize::new(0);
        std::thread::scope(|sc| {
            for _ in 0..16 {
                sc.spawn(|| loop {
                    let i = next.fetch_add(1, Ordering::SeqCst);
                    if i >= exprs.len() {
                        break;
                    }
                    if i % stride != 0 && i >= full_upto {
                        continue;
                    }
                    let e = &exprs[i];
                    total.fetch_add(1, Ordering::Relaxed);
                    let expect = iset::scalar_only(&re::class_of(e, &Default::default()).unwrap());
                    if expect.is_empty() {
                        // an empty class is not a well-formed definition (the rule could never match)
                        empties.fetch_add(1, Ordering::Relaxed);
                        continue;
                    }
                    match compiled_class(e) {
                        Err(msg) => {
                            let mut g = shared.lock().unwrap();
                            if g.1.len() < 30 {
                                g.1.push(json!({"kind": "class-panic", "definition": re::print_min(e), "input": null, "detail": format!("{pname}: {msg}")}));
                            }
                        }
                        Ok(got) => {
                            let got = iset::scalar_only(&got);
                            // every universe point and every boundary +-1 of both sides
                            let mut qs: BTreeSet<u32> = points.iter().copied().collect();
                            for (s, e) in expect.iter().chain(got.iter()) {
                                for q in [s.wrapping_sub(1), *s, s + 1, e.wrapping_sub(1), *e, e + 1] {
                                    if q <= 0x10FFFF && char::from_u32(q).is_some() {
                                        qs.insert(q);
                                    }
                                }
                            }
                            for q in qs {
                                queries.fetch_add(1, Ordering::Relaxed);
                                if iset::contains(&expect, q) != iset::contains(&got, q) {
                                    let mut g = shared.lock().unwrap();
                                    if g.1.len() < 30 {
                                        g.1.push(json!({
                                            "kind": "class", "definition": re::print_min(e), "input": char::from_u32(q).map(|c| c.to_string()),
                                            "detail": format!("{pname}: U+{q:04X} accepted by the compiled class: {}, member by set algebra: {}", iset::contains(&got, q), iset::contains(&expect, q)),
                                        }));
                                    }
                                    break;
                                }
                            }
                            let mut g = shared.lock().unwrap();
                            if g.2.len() < 3 && matches!(e, Re::Diff(..)) && i > 100 && i % 37 == 0 {
                                g.2.push(json!({"placement": pname, "expr": re::print_min(e), "set": format!("{expect:?}")}));
                            }
                            g.0.insert(expect);
                        }
                    }
                });
            }
        });
    }
    let (distinct, v, samples) = shared.into_inner().unwrap();
    viols.extend(v);
    json!({"expressions": total.into_inner(), "empty_skipped": empties.into_inner(), "point_queries": queries.into_inner(), "distinct_sets": distinct.len(), "depth": depth, "stride_beyond_depth2": stride, "samples": samples})
}

/// Quoted and boundary class expressions (always run).
fn class_regress(viols: &mut Vec<Value>) -> Value {
    use refmodel::re::*;
    let d = |a: char, b: char| set(&[(a, b)]);
    let cases: Vec<Re> = vec![
        diff(set(&[('0', '5'), ('7', '9')]), d('0', '8')),
        diff(Re::Any, d('\u{0}', '\u{D7FF}')),
        diff(Re::Any, d('\u{E000}', '\u{10FFFF}')),
        diff(d('\u{D000}', '\u{F000}'), d('\u{D000}', '\u{D7FF}')),
        diff(d('\u{D000}', '\u{F000}'), d('\u{E000}', '\u{F000}')),
        diff(Re::Any, Re::Any),
        diff(diff(Re::Any, d('b', 'y')), ch('a')),
        diff(set(&[('a', 'z'), ('c', 'e')]), ch('x')),
        diff(Re::Any, set(&[('0', '9'), ('2', '3'), ('5', '5')])),
        diff(diff(d('a', 'z'), d('c', 'e')), d('d', 'x')),
        diff(builtin("alphabetic"), d('a', 'z')),
        diff(builtin("ascii_alphanumeric"), builtin("ascii_digit")),
        diff(alt(builtin("ascii_digit"), d('a', 'f')), ch('c')),
        diff(Re::Any, builtin("alphabetic")),
        diff(diff(Re::Any, builtin("whitespace")), builtin("ascii_punctuation")),
        set(&[('a', 'a'), ('a', 'a')]),
        set(&[('a', 'c'), ('b', 'b'), ('b', 'd'), ('a', 'a')]),
        alt(d('a', 'c'), alt(ch('b'), d('b', 'e'))),
        diff(d('a', 'e'), d('a', 'e')),
        diff(d('a', 'e'), d('a', 'c')),
        diff(d('a', 'e'), d('c', 'e')),
        diff(set(&[('a', 'b'), ('d', 'e'), ('g', 'h')]), d('b', 'g')),
        diff(set(&[('a', 'b'), ('d', 'e'), ('g', 'h')]), d('d', 'e')),
        diff(set(&[('a', 'b'), ('d', 'e'), ('g', 'h')]), set(&[('a', 'a'), ('e', 'e'), ('g', 'h')])),
    ];
    let mut n = 0;
    for e in &cases {
        let expect = iset::scalar_only(&re::class_of(e, &Default::default()).unwrap());
        if expect.is_empty() {
            continue;
        }
        n += 1;
        match compiled_class(e) {
            Err(msg) => viols.push(json!({"kind": "class-panic", "definition": re::print_min(e), "input": null, "detail": msg})),
            Ok(got) => {
                let got = iset::scalar_only(&got);
                if got != expect {
                    // first differing scalar value
                    let a = iset::diff(&got, &expect);
                    let b = iset::diff(&expect, &got);
                    let q = a.first().or(b.first()).map(|x| x.0).unwrap_or(0);
                    viols.push(json!({"kind": "class", "definition": re::print_min(e), "input": char::from_u32(q).map(|c| c.to_string()),
                        "detail": format!("U+{q:04X} accepted by the compiled class: {}, member by set algebra: {}", iset::contains(&got, q), iset::contains(&expect, q))}));
                }
            }
        }
    }
    json!({"cases": n})
}

// ------------------------------------------------------------------ built-ins (C13, automaton level)

fn builtins_job(viols: &mut Vec<Value>) -> Value {
    use crate::builtin::BUILTIN_RANGES;
    let mut evaluations = 0u64;
    let mut per_name = vec![];
    let names = refmodel::builtins::builtin_names();
    // the documented list and lexgen's list must coincide
    let lexgen_names: Vec<&str> = BUILTIN_RANGES.iter().map(|(n, _)| *n).collect();
    if names != lexgen_names {
        viols.push(json!({"kind": "builtin-names", "definition": format!("{lexgen_names:?}"), "input": null, "detail": format!("documented names {names:?}")}));
    }
    let mut exprs: Vec<(String, Re)> = names.iter().map(|n| (n.to_string(), re::builtin(n))).collect();
    // in combination
    let combos = [("alphabetic", "numeric"), ("lowercase", "uppercase"), ("XID_Continue", "XID_Start"), ("alphanumeric", "alphabetic"), ("ascii_graphic", "ascii_alphanumeric"), ("whitespace", "control")];
    for (a, b) in combos {
        exprs.push((format!("{a}|{b}"), re::alt(re::builtin(a), re::builtin(b))));
        exprs.push((format!("{a}#{b}"), re::diff(re::builtin(a), re::builtin(b))));
        exprs.push((format!("{b}#{a}"), re::diff(re::builtin(b), re::builtin(a))));
    }
    for (a, b, c) in [("alphanumeric", "alphabetic", "ascii_digit"), ("alphabetic", "lowercase", "uppercase"), ("ascii_alphanumeric", "ascii_digit", "ascii_uppercase"), ("XID_Continue", "XID_Start", "numeric")] {
        exprs.push((format!("{a}#{b}#{c}"), re::diff(re::diff(re::builtin(a), re::builtin(b)), re::builtin(c))));
    }
    for (a, b) in [("alphabetic", "numeric"), ("numeric", "alphabetic"), ("uppercase", "ascii_digit")] {
        exprs.push((format!("({a}|{b})#[a-z]"), re::diff(re::alt(re::builtin(a), re::builtin(b)), re::set(&[('a', 'z')]))));
        exprs.push((format!("({a}|{b})#ascii_alphanumeric"), re::diff(re::alt(re::builtin(a), re::builtin(b)), re::builtin("ascii_alphanumeric"))));
    }
    for n in ["alphabetic", "uppercase", "XID_Start", "ascii_hexdigit"] {
        exprs.push((format!("{n}#[a-z]"), re::diff(re::builtin(n), re::set(&[('a', 'z')]))));
        exprs.push((format!("_#{n}"), re::diff(Re::Any, re::builtin(n))));
    }
    for (label, e) in &exprs {
        let expect = iset::scalar_only(&re::class_of(e, &Default::default()).unwrap());
        // table well-formedness for plain names
        if let Re::Builtin(n) = e {
            if let Some((_, b)) = BUILTIN_RANGES.iter().find(|(m, _)| m == n) {
                let t: Ranges = b.get_ranges().to_vec();
                let mut bad = well_formed(&t);
                if bad.is_none() {
                    for w in t.windows(2) {
                        if w[0].1 + 1 == w[1].0 {
                            bad = Some(format!("adjacent ranges ({},{}) ({},{})", w[0].0, w[0].1, w[1].0, w[1].1));
                        }
                    }
                    for &(s, e) in &t {
                        if char::from_u32(s).is_none() || char::from_u32(e).is_none() {
                            bad = Some(format!("end point of ({s:#x},{e:#x}) is not a scalar value"));
                        }
                    }
                }
                if let Some(b) = bad {
                    viols.push(json!({"kind": "builtin-table", "definition": format!("$${n}"), "input": null, "detail": b}));
                }
            }
        }
        match compiled_class(e) {
            Err(msg) => viols.push(json!({"kind": "builtin-panic", "definition": re::print_min(e), "input": null, "detail": msg})),
            Ok(got) => {
                // walk all 1,112,064 scalar values
                let mut diffs = 0u64;
                let mut first: Option<u32> = None;
                let (mut gi, mut ei) = (0usize, 0usize);
                for c in 0..=0x10FFFFu32 {
                    if (0xD800..=0xDFFF).contains(&c) {
                        continue;
                    }
                    evaluations += 1;
                    while gi < got.len() && got[gi].1 < c {
                        gi += 1;
                    }
                    while ei < expect.len() && expect[ei].1 < c {
                        ei += 1;
                    }
                    let g = gi < got.len() && got[gi].0 <= c;
                    let x = ei < expect.len() && expect[ei].0 <= c;
                    if g != x {
                        diffs += 1;
                        first.get_or_insert(c);
                    }
                }
                if diffs > 0 {
                    let q = first.unwrap();
                    viols.push(json!({
                        "kind": "builtin", "definition": re::print_min(e), "input": char::from_u32(q).map(|c| c.to_string()),
                        "detail": format!("{diffs} scalar values differ from the Rust predicate; first U+{q:04X}: lexgen accepts {}, predicate {}", iset::contains(&got, q), iset::contains(&expect, q)),
                    }));
                }
                per_name.push(json!({"expr": label, "members": iset::count(&expect), "ranges": expect.len(), "differing": diffs}));
            }
        }
    }
    json!({"expressions": exprs.len(), "evaluations": evaluations, "per_expr": per_name})
}

// ------------------------------------------------------------------ parser round trips (C16)

fn parse_regex_text(text: &str) -> Result<Vec<(Option<String>, Re, Option<Re>)>, String> {
    // parse a whole lexer body and return (let name | None for a rule, regex, right ctx)
    use syn::parse::Parser;
    let mut sat = crate::semantic_action_table::SemanticActionTable::new();
    let src = format!("L -> usize;\n{text}");
    let l = std::panic::catch_unwind(move || {
        let r = ast::make_lexer_parser(&mut sat).parse_str(&src);
        r.map(|l| l.rules)
    })
    .map_err(|_| "parser panicked".to_string())?
    .map_err(|e| format!("parse error: {e}"))?;
    let mut out = vec![];
    for r in l {
        match r {
            ast::Rule::RuleOrBinding(ast::RuleOrBinding::Binding(b)) => out.push((Some(b.var.0.clone()), ast_to_re(&b.re), None)),
            ast::Rule::RuleOrBinding(ast::RuleOrBinding::Rule(r)) => out.push((None, ast_to_re(&r.lhs.re), r.lhs.right_ctx.as_ref().map(ast_to_re))),
            _ => return Err("unexpected item".into()),
        }
    }
    Ok(out)
}

/// All ways of adding redundant parentheses around subtrees (each subtree independently).
fn print_with_parens(r: &Re, mask: &mut u64, bit: &mut u32, min_level: u8) -> String {
    fn level(r: &Re) -> u8 {
        match r {
            Re::Alt(..) => 0,
            Re::Cat(..) => 1,
            Re::Star(_) | Re::Plus(_) | Re::Opt(_) => 2,
            Re::Diff(..) => 3,
            _ => 4,
        }
    }
    let my_bit = *bit;
    *bit += 1;
    let s = match r {
        Re::Star(x) => format!("{}*", print_with_parens(x, mask, bit, 2)),
        Re::Plus(x) => format!("{}+", print_with_parens(x, mask, bit, 2)),
        Re::Opt(x) => format!("{}?", print_with_parens(x, mask, bit, 2)),
        Re::Cat(x, y) => {
            let a = print_with_parens(x, mask, bit, 1);
            let b = print_with_parens(y, mask, bit, 2);
            format!("{a} {b}")
        }
        Re::Alt(x, y) => {
            let a = print_with_parens(x, mask, bit, 0);
            let b = print_with_parens(y, mask, bit, 1);
            format!("{a} | {b}")
        }
        Re::Diff(x, y) => {
            let a = print_with_parens(x, mask, bit, 3);
            let b = print_with_parens(y, mask, bit, 4);
            format!("{a} # {b}")
        }
        o => re::print_min(o),
    };
    let need = level(r) < min_level;
    let extra = (*mask >> my_bit) & 1 == 1;
    if need || extra {
        format!("({s})")
    } else {
        s
    }
}

fn subtrees(r: &Re, out: &mut Vec<Re>) {
    out.push(r.clone());
    match r {
        Re::Star(x) | Re::Plus(x) | Re::Opt(x) => subtrees(x, out),
        Re::Cat(x, y) | Re::Alt(x, y) | Re::Diff(x, y) => {
            subtrees(x, out);
            subtrees(y, out);
        }
        _ => {}
    }
}

fn replace_first(r: &Re, target: &Re, with: &Re, done: &mut bool) -> Re {
    if !*done && r == target {
        *done = true;
        return with.clone();
    }
    match r {
        Re::Star(x) => Re::Star(Box::new(replace_first(x, target, with, done))),
        Re::Plus(x) => Re::Plus(Box::new(replace_first(x, target, with, done))),
        Re::Opt(x) => Re::Opt(Box::new(replace_first(x, target, with, done))),
        Re::Cat(x, y) => {
            let a = replace_first(x, target, with, done);
            Re::Cat(Box::new(a), Box::new(replace_first(y, target, with, done)))
        }
        Re::Alt(x, y) => {
            let a = replace_first(x, target, with, done);
            Re::Alt(Box::new(a), Box::new(replace_first(y, target, with, done)))
        }
        Re::Diff(x, y) => {
            let a = replace_first(x, target, with, done);
            Re::Diff(Box::new(a), Box::new(replace_first(y, target, with, done)))
        }
        o => o.clone(),
    }
}

fn parser_trees(size: usize) -> Vec<Re> {
    use refmodel::re::*;
    // the variable is named like a built-in (`$lowercase` is a variable, `$$lowercase` the class); one string has a single non-ASCII character
    let atoms = vec![ch('a'), st("ab"), set(&[('a', 'b')]), Re::Any, var("lowercase"), builtin("ascii_digit"), Re::Eoi, set(&[('x', 'x'), ('c', 'e'), ('\'', '\''), ('0', '9'), ('-', '-')]), st("é")];
    let mut memo: Vec<Vec<Re>> = vec![vec![], atoms];
    for s in 2..=size {
        let mut v = vec![];
        for r in &memo[s - 1] {
            v.push(star(r.clone()));
            v.push(plus(r.clone()));
            v.push(opt(r.clone()));
        }
        for l in 1..s - 1 {
            let rr = s - 1 - l;
            for x in &memo[l] {
                for y in &memo[rr] {
                    v.push(cat(x.clone(), y.clone()));
                    v.push(alt(x.clone(), y.clone()));
                    v.push(diff(x.clone(), y.clone()));
                }
            }
        }
        memo.push(v);
    }
    // `$` only at the tail of a rule or right context (the quantifier of the property); note that
    // `$ $v` is not even expressible: `$$v` is a built-in.
    fn eoi_ok(r: &Re, tail: bool) -> bool {
        match r {
            Re::Eoi => tail,
            Re::Star(x) | Re::Plus(x) | Re::Opt(x) => eoi_ok(x, false),
            Re::Cat(x, y) => eoi_ok(x, false) && eoi_ok(y, tail),
            Re::Alt(x, y) => eoi_ok(x, tail) && eoi_ok(y, tail),
            Re::Diff(x, y) => eoi_ok(x, false) && eoi_ok(y, false),
            _ => true,
        }
    }
    memo.into_iter().flatten().filter(|r| eoi_ok(r, true)).collect()
}

fn parser_job(size: usize, paren_size: usize, stride: usize, viols: &mut Vec<Value>) -> Value {
    let trees = parser_trees(size);
    let mut printed = 0u64;
    let mut factored = 0u64;
    let mut distinct_texts: HashSet<String> = HashSet::new();
    let mut samples = vec![];
    let report = |viols: &mut Vec<Value>, kind: &str, tree: &Re, text: &str, detail: String| {
        if viols.len() < 30 {
            viols.push(json!({"kind": kind, "definition": text, "input": null, "detail": format!("tree {tree:?}: {detail}")}));
        }
    };
    for (ti, t) in trees.iter().enumerate() {
        if t.size() == size && ti % stride != 0 {
            continue;
        }
        // (a) minimal, (b) full
        let mut texts = vec![("minimal", re::print_min(t)), ("full", re::print_full(t))];
        // (c) each subset of redundant parentheses
        if t.size() <= paren_size {
            let n = {
                let mut v = vec![];
                subtrees(t, &mut v);
                v.len()
            };
            for mask in 1u64..(1 << n) {
                let mut m = mask;
                let mut bit = 0;
                texts.push(("redundant", print_with_parens(t, &mut m, &mut bit, 0)));
            }
        }
        for (how, text) in &texts {
            printed += 1;
            if samples.len() < 4 && t.size() == 4 && *how == "minimal" && text.contains('#') && text.contains('|') {
                samples.push(json!({"tree": format!("{t:?}"), "minimal": text, "full": re::print_full(t)}));
            }
            distinct_texts.insert(text.clone());
            match parse_regex_text(&format!("let lowercase = 'c';\n{text} = 0,\n")) {
                Err(e) => report(viols, "parse", t, text, format!("{how} printing rejected: {e}")),
                Ok(items) => {
                    let got = items.iter().find(|i| i.0.is_none()).map(|i| i.1.clone());
                    if got.as_ref() != Some(t) {
                        report(viols, "parse", t, text, format!("{how} printing parsed as {got:?}"));
                    }
                }
            }
        }
        // as right context, and as a `let` body
        if t.size() <= 3 {
            printed += 1;
            let text = format!("let lowercase = 'c';\nlet w = {};\n'a' > {} = 0,\n", re::print_min(t), re::print_min(t));
            match parse_regex_text(&text) {
                Err(e) => report(viols, "parse", t, &text, format!("rejected: {e}")),
                Ok(items) => {
                    let w = items.iter().find(|i| i.0.as_deref() == Some("w")).map(|i| i.1.clone());
                    let c = items.iter().find(|i| i.0.is_none()).and_then(|i| i.2.clone());
                    if w.as_ref() != Some(t) || c.as_ref() != Some(t) {
                        report(viols, "parse", t, &text, format!("let body parsed as {w:?}, right context as {c:?}"));
                    }
                }
            }
        }
        // (d) every subtree factored into a top-level `let`: `$x` stands for its regex as a unit
        if t.size() <= 4 && t.size() >= 2 {
            let mut subs = vec![];
            subtrees(t, &mut subs);
            for sub in subs.iter().skip(1) {
                let mut done = false;
                let with_var = replace_first(t, sub, &Re::Var("x".into()), &mut done);
                let text = format!("let lowercase = 'c';\nlet x = {};\n{} = 0,\n", re::print_min(sub), re::print_min(&with_var));
                factored += 1;
                match parse_regex_text(&text) {
                    Err(e) => report(viols, "let", t, &text, format!("rejected: {e}")),
                    Ok(items) => {
                        let x = items.iter().find(|i| i.0.as_deref() == Some("x")).map(|i| i.1.clone());
                        let rule = items.iter().find(|i| i.0.is_none()).map(|i| i.1.clone());
                        let mut env = re::Env::new();
                        if let Some(x) = x {
                            env.insert("x".into(), x);
                        }
                        env.insert("lowercase".into(), Re::Char('c'));
                        let mut env0 = re::Env::new();
                        env0.insert("lowercase".into(), Re::Char('c'));
                        let got = rule.map(|r| r.subst(&env));
                        if got != Some(t.subst(&env0)) {
                            report(viols, "let", t, &text, format!("after substitution: {got:?}"));
                        }
                    }
                }
            }
        }
    }
    json!({"trees": trees.len(), "size": size, "printings_parsed": printed, "factorings_parsed": factored, "distinct_texts": distinct_texts.len(), "samples": samples})
}

// ------------------------------------------------------------------ the repository's own lexers (REGRESS corpus)

/// Extract the bodies of all `lexer! { … }` invocations of a Rust source file.
fn extract_lexers(src: &str) -> Vec<String> {
    let b: Vec<char> = src.chars().collect();
    let mut out = vec![];
    let mut i = 0;
    let pat: Vec<char> = "lexer!".chars().collect();
    while i + pat.len() < b.len() {
        if b[i..i + pat.len()] == pat[..] {
            let mut j = i + pat.len();
            while j < b.len() && b[j].is_whitespace() {
                j += 1;
            }
            if j < b.len() && b[j] == '{' {
                // balanced braces, skipping string / char literals and comments
                let start = j + 1;
                let mut depth = 1;
                let mut k = start;
                while k < b.len() && depth > 0 {
                    match b[k] {
                        '/' if k + 1 < b.len() && b[k + 1] == '/' => {
                            while k < b.len() && b[k] != '\n' {
                                k += 1;
                            }
                            continue;
                        }
                        '"' => {
                            k += 1;
                            while k < b.len() && b[k] != '"' {
                                if b[k] == '\\' {
                                    k += 1;
                                }
                                k += 1;
                            }
                        }
                        '\'' => {
                            // char literal (not a lifetime): 'x' or '\..'
                            if k + 2 < b.len() && (b[k + 1] == '\\' || b[k + 2] == '\'') {
                                k += 1;
                                if b[k] == '\\' {
                                    k += 1;
                                }
                                while k < b.len() && b[k] != '\'' {
                                    k += 1;
                                }
                            }
                        }
                        '{' => depth += 1,
                        '}' => depth -= 1,
                        _ => {}
                    }
                    k += 1;
                }
                if depth == 0 {
                    out.push(b[start..k - 1].iter().collect());
                }
                i = k;
                continue;
            }
        }
        i += 1;
    }
    out
}

fn ast_to_spec(l: &ast::Lexer) -> Result<refmodel::spec::Spec, String> {
    use refmodel::spec::*;
    let mut spec = Spec { lets: vec![], sets: vec![], named: false, decl_order: vec![], family: "repo_tests", set_names: vec![] };
    let conv_rule = |r: &ast::SingleRule| Rule { re: ast_to_re(&r.lhs.re), ctx: r.lhs.right_ctx.as_ref().map(ast_to_re), kind: Kind::Act(D_RETURN) };
    let mut unnamed: Vec<Rule> = vec![];
    for item in &l.rules {
        match item {
            ast::Rule::ErrorType { .. } => {}
            ast::Rule::RuleOrBinding(ast::RuleOrBinding::Binding(b)) => {
                if !spec.sets.is_empty() || !unnamed.is_empty() {
                    return Err("top-level let after rules: scoping by position not modelled".into());
                }
                spec.lets.push((b.var.0.clone(), ast_to_re(&b.re)));
            }
            ast::Rule::RuleOrBinding(ast::RuleOrBinding::Rule(r)) => unnamed.push(conv_rule(r)),
            ast::Rule::RuleSet { name, rules } => {
                spec.named = true;
                let mut rs = RuleSet::default();
                for rb in rules {
                    match rb {
                        ast::RuleOrBinding::Binding(b) => rs.lets.push((b.var.0.clone(), ast_to_re(&b.re))),
                        ast::RuleOrBinding::Rule(r) => rs.rules.push(conv_rule(r)),
                    }
                }
                spec.set_names.push(name.to_string());
                spec.sets.push(rs);
            }
        }
    }
    if !spec.named {
        spec.sets.push(RuleSet { lets: vec![], rules: unnamed });
    }
    if spec.sets.is_empty() {
        return Err("no rules".into());
    }
    Ok(spec)
}

/// Every `lexer!` block of the repository's test files (incl. the Lua 5.1 lexer), compiled by
/// the real pipeline and explored against derivatives over all strings.
fn corpus_job(cap: u64, viols: &mut Vec<Value>) -> Value {
    use refmodel::product::{explore_spec, Stats};
    use syn::parse::Parser;
    let mut files: Vec<String> = vec![];
    for dir in ["/repo/crates/lexgen/tests", "/repo/crates/lexgen_lalrpop_example/src", "/repo/crates/lexgen/benches"] {
        if let Ok(rd) = std::fs::read_dir(dir) {
            for e in rd.flatten() {
                let p = e.path();
                if p.extension().map(|x| x == "rs").unwrap_or(false) {
                    files.push(p.to_string_lossy().to_string());
                }
            }
        }
    }
    files.sort();
    let (mut found, mut explored, mut skipped, mut capped) = (0u64, 0u64, vec![], 0u64);
    let mut st = Stats::default();
    let mut biggest = (0usize, String::new());
    for f in &files {
        let Ok(src) = std::fs::read_to_string(f) else { continue };
        for (bi, body) in extract_lexers(&src).into_iter().enumerate() {
            found += 1;
            let name = format!("{}#{}", f.rsplit('/').next().unwrap_or(f), bi);
            let parsed = std::panic::catch_unwind(|| {
                let mut sat = crate::semantic_action_table::SemanticActionTable::new();
                let r = ast::make_lexer_parser(&mut sat).parse_str(&body);
                r.map_err(|e| e.to_string())
            });
            let lexer = match parsed {
                Ok(Ok(l)) => l,
                _ => {
                    skipped.push(json!({"lexer": name, "why": "does not parse outside its file (uses outer macros?)"}));
                    continue;
                }
            };
            let spec = match ast_to_spec(&lexer) {
                Ok(s) => s,
                Err(e) => {
                    skipped.push(json!({"lexer": name, "why": e}));
                    continue;
                }
            };
            // rules that match the empty string are outside the well-formed family
            let nullable = spec.sets.iter().enumerate().any(|(si, set)| {
                let env = spec.env_of_set(si);
                set.rules.iter().any(|r| std::panic::catch_unwind(|| r.re.subst(&env).nullable_syn()).unwrap_or(true))
            });
            if nullable {
                skipped.push(json!({"lexer": name, "why": "a rule matches the empty string (or uses an unbound variable)"}));
                continue;
            }
            let c = std::panic::catch_unwind(|| px_compile::compile_text(&body, false));
            let dump = match c {
                Ok(Ok(c)) => match Dump::parse(&c.dump) {
                    Ok(d) => d,
                    Err(e) => {
                        viols.push(json!({"kind": "panic", "definition": name, "input": null, "detail": format!("dump does not parse: {e}")}));
                        continue;
                    }
                },
                _ => {
                    skipped.push(json!({"lexer": name, "why": "pipeline rejects it (a test of a rejected definition?)"}));
                    continue;
                }
            };
            let mut s1 = Stats::default();
            let vs = std::panic::catch_unwind(|| {
                let mut s1 = Stats::default();
                let v = explore_spec(&spec, &dump, &mut s1, cap);
                (v, s1)
            });
            let (vs, s1) = match vs {
                Ok(x) => x,
                Err(_) => {
                    skipped.push(json!({"lexer": name, "why": "reference model cannot express it"}));
                    continue;
                }
            };
            explored += 1;
            st.states += s1.states;
            st.transitions += s1.transitions;
            st.ctx_states += s1.ctx_states;
            st.rewind_obligations += s1.rewind_obligations;
            if s1.capped {
                capped += 1;
            }
            if dump.states.len() > biggest.0 {
                biggest = (dump.states.len(), name.clone());
            }
            let mut kinds = HashSet::new();
            for v in vs {
                let k = format!("{:?}", v.kind).to_lowercase();
                if kinds.insert(k.clone()) && viols.len() < 20 {
                    viols.push(json!({"kind": match v.kind {
                        refmodel::product::ViolKind::Viability => "viability", refmodel::product::ViolKind::Accept => "accept", refmodel::product::ViolKind::Rewind => "rewind",
                        refmodel::product::ViolKind::EoiNonTerminal => "eoi", refmodel::product::ViolKind::Ctx => "ctx", refmodel::product::ViolKind::Entry => "entry", refmodel::product::ViolKind::Foreign => "foreign" },
                        "definition": format!("{name}: {}", spec.describe().chars().take(300).collect::<String>()), "input": v.path_string(), "path": v.show_path(), "detail": v.detail, "set": v.set}));
                }
            }
        }
    }
    json!({"files": files.len(), "lexers_found": found, "explored": explored, "skipped": skipped, "capped": capped, "states": st.states, "ctx_states": st.ctx_states,
           "transitions": st.transitions, "rewind_obligations": st.rewind_obligations, "largest": {"dfa_states": biggest.0, "lexer": biggest.1}})
}

// ------------------------------------------------------------------ shape signatures (selection of end-to-end representatives)

/// A coarse description of an automaton's shape: "one input per shortcut visible in the code".
fn signature(d: &Dump) -> String {
    let n = d.states.len();
    let targets = |st: &refmodel::dump::DState| -> Vec<Target> {
        st.chars.iter().map(|(_, t)| t.clone()).chain(st.ranges.iter().map(|(_, _, t)| t.clone())).chain(st.any.iter().cloned()).chain(st.eoi.iter().cloned()).collect()
    };
    let succ = |i: usize| -> Vec<usize> { targets(&d.states[i]).into_iter().filter_map(|t| if let Target::State(j) = t { Some(j) } else { None }).collect() };
    // states reachable from entry 0 without passing an accepting state ("cold")
    let mut cold = vec![false; n];
    let mut stack = vec![0usize];
    cold[0] = true;
    while let Some(i) = stack.pop() {
        if !d.states[i].accepting.is_empty() {
            continue;
        }
        for j in succ(i) {
            if j < n && !cold[j] {
                cold[j] = true;
                stack.push(j);
            }
        }
    }
    let cold_backtrack = (0..n).filter(|&i| cold[i] && d.states[i].backtrack && d.states[i].accepting.is_empty()).count();
    let warm_accept = d.states.iter().filter(|s| !s.accepting.is_empty() && !targets(s).is_empty()).count();
    let ctx_only_accept = d.states.iter().filter(|s| !s.accepting.is_empty() && s.accepting.iter().all(|a| a.1.is_some())).count();
    let multi_accept = d.states.iter().any(|s| s.accepting.len() > 1);
    let joins = d.states.iter().filter(|s| s.preds.len() >= 2).count();
    let inlined = d.states.iter().filter(|s| s.preds.len() == 1 && !s.initial).count();
    // cycle detection
    let mut color = vec![0u8; n];
    fn dfs(i: usize, succ: &dyn Fn(usize) -> Vec<usize>, color: &mut Vec<u8>) -> bool {
        color[i] = 1;
        for j in succ(i) {
            if j >= color.len() {
                continue;
            }
            if color[j] == 1 || (color[j] == 0 && dfs(j, succ, color)) {
                return true;
            }
        }
        color[i] = 2;
        false
    }
    let cycle = dfs(0, &succ, &mut color);
    let self_loop = (0..n).any(|i| succ(i).contains(&i));
    let mut mixes = std::collections::BTreeSet::new();
    let mut overlap = false;
    let mut acc_edges = std::collections::BTreeSet::new();
    for st in &d.states {
        let k = (!st.chars.is_empty(), !st.ranges.is_empty(), st.any.is_some());
        mixes.insert(k);
        for (c, t) in &st.chars {
            if let Some((_, _, rt)) = st.ranges.iter().find(|(a, b, _)| a <= c && c <= b) {
                if rt != t {
                    overlap = true;
                }
            }
            if matches!(t, Target::Accept(_)) {
                acc_edges.insert("char");
            }
        }
        for (_, _, t) in &st.ranges {
            if matches!(t, Target::Accept(_)) {
                acc_edges.insert("range");
            }
        }
        if matches!(st.any, Some(Target::Accept(_))) {
            acc_edges.insert("any");
        }
        if st.eoi.is_some() {
            acc_edges.insert("eoi");
        }
    }
    let bucket = |x: usize| match x {
        0 => 0,
        1 => 1,
        2 => 2,
        3..=4 => 3,
        _ => 5,
    };
    format!(
        "n{} cold_bt{} warm{} ctxonly{} multi{} joins{} inl{} cyc{} self{} mix{:?} ovl{} acc{:?}",
        bucket(n), bucket(cold_backtrack), bucket(warm_accept), bucket(ctx_only_accept), multi_accept as u8, bucket(joins), bucket(inlined), cycle as u8, self_loop as u8, mixes, overlap as u8, acc_edges
    )
}

/// First definition of a family for every distinct signature.
fn signatures_job(family: &str, limit: usize) -> Value {
    let fam = refmodel::families::p_family(family).unwrap_or_else(|| panic!("unknown family {family}"));
    let mut seen: HashMap<String, usize> = HashMap::new();
    let mut order: Vec<usize> = vec![];
    for i in 0..fam.len.min(limit) {
        let spec = (fam.get)(i);
        let text = px_compile::lexer_text(&spec, "L");
        let Ok(Ok(c)) = std::panic::catch_unwind(|| px_compile::compile_text(&text, false)) else { continue };
        let Ok(d) = Dump::parse(&c.dump) else { continue };
        let sig = signature(&d);
        if !seen.contains_key(&sig) {
            seen.insert(sig, i);
            order.push(i);
        }
    }
    json!({"family": family, "definitions": fam.len.min(limit), "signatures": order.len(), "indices": order})
}

// ------------------------------------------------------------------ interchangeability (C02)

/// Equivalent regexes placed at every position of every context, beside a second rule: the two
/// compiled automata are explored as a product against each other (no reference involved).
fn equiv_job(k: usize, viols: &mut Vec<Value>) -> Value {
    use refmodel::enumerate::{atoms6, re_upto};
    use refmodel::product::{equivalent, Stats};
    use refmodel::re::*;
    use std::sync::atomic::{AtomicU64, AtomicUsize, Ordering};
    use std::sync::Mutex;
    let rs = re_upto(k, &atoms6());
    let ts = [ch('c'), plus(ch('a')), st("ab")];
    // (lhs, rhs, lets for lhs side, what)
    let mut pairs: Vec<(Re, Re, Vec<(String, Re)>, &'static str)> = vec![];
    for r in &rs {
        pairs.push((plus(r.clone()), cat(r.clone(), star(r.clone())), vec![], "r+ = r r*"));
        pairs.push((var("v"), r.clone(), vec![("v".to_string(), r.clone())], "$v = its definition"));
        pairs.push((opt(r.clone()), alt(r.clone(), opt(r.clone())), vec![], "r? = r | r?"));
        for s in rs.iter().take(12) {
            pairs.push((alt(r.clone(), s.clone()), alt(s.clone(), r.clone()), vec![], "r|s = s|r"));
        }
    }
    for w in ["ab", "ba", "abc", "aab", "a"] {
        let cs: Vec<char> = w.chars().collect();
        let mut c = ch(cs[0]);
        for x in &cs[1..] {
            c = cat(c, ch(*x));
        }
        pairs.push((st(w), c, vec![], "string = concatenation of its characters"));
    }
    type Ctx = fn(Re, &Re) -> Re;
    let ctxs: Vec<(&str, Ctx)> = vec![
        ("[]", |x, _| x),
        ("[] t", |x, t| cat(x, t.clone())),
        ("t []", |x, t| cat(t.clone(), x)),
        ("([])* t", |x, t| cat(star(x), t.clone())),
        ("[] | t", |x, t| alt(x, t.clone())),
        ("t ([])+", |x, t| cat(t.clone(), plus(x))),
    ];
    let seconds: Vec<Option<Re>> = vec![None, Some(plus(ch('a'))), Some(Re::Any)];
    let mut jobs: Vec<(String, String, String)> = vec![];
    for (l, r, lets, what) in &pairs {
        for (cname, c) in &ctxs {
            for t in &ts {
                let (cl, cr) = (c(l.clone(), t), c(r.clone(), t));
                let env: Env = lets.iter().cloned().collect();
                if cl.subst(&env).nullable_syn() || cr.nullable_syn() {
                    continue;
                }
                for (si, sec) in seconds.iter().enumerate() {
                    if si > 0 && *cname != "[]" && *cname != "[] t" {
                        continue;
                    }
                    let mk = |x: &Re, lets: &[(String, Re)], first: bool| -> String {
                        let mut s = String::from("L -> usize;\n");
                        for (n, r) in lets {
                            s += &format!("let {n} = {};\n", print_min(r));
                        }
                        let a = format!("{} = 0,\n", print_min(x));
                        let b = sec.as_ref().map(|r| format!("{} = 1,\n", print_min(r))).unwrap_or_default();
                        if first { s + &a + &b } else { s + &b + &a }
                    };
                    for first in [true, false] {
                        if !first && sec.is_none() {
                            continue;
                        }
                        jobs.push((mk(&cl, lets, first), mk(&cr, &[], first), format!("{what} in context {cname} with t = {}", print_min(t))));
                    }
                }
                if *cname == "[]" {
                    break;
                }
            }
        }
    }
    let next = AtomicUsize::new(0);
    let states = AtomicU64::new(0);
    let trans = AtomicU64::new(0);
    let found: Mutex<Vec<Value>> = Mutex::new(vec![]);
    std::thread::scope(|sc| {
        for _ in 0..16 {
            sc.spawn(|| loop {
                let i = next.fetch_add(1, Ordering::SeqCst);
                if i >= jobs.len() {
                    break;
                }
                let (a, b, what) = &jobs[i];
                let r = std::panic::catch_unwind(|| (px_compile::compile_text(a, false), px_compile::compile_text(b, false)));
                let bad = match r {
                    Ok((Ok(ca), Ok(cb))) => match (Dump::parse(&ca.dump), Dump::parse(&cb.dump)) {
                        (Ok(da), Ok(db)) => {
                            let mut st = Stats::default();
                            let res = equivalent(&da, &db, &mut st, 100_000);
                            states.fetch_add(st.states, Ordering::Relaxed);
                            trans.fetch_add(st.transitions, Ordering::Relaxed);
                            res.err().map(|(path, d)| (path.iter().filter_map(|s| if let refmodel::deriv::Sym::Ch(c) = s { char::from_u32(*c) } else { None }).collect::<String>(), d))
                        }
                        _ => Some((String::new(), "dump does not parse".into())),
                    },
                    _ => Some((String::new(), "one side does not compile".into())),
                };
                if let Some((input, d)) = bad {
                    let mut f = found.lock().unwrap();
                    if f.len() < 20 {
                        f.push(json!({"kind": "interchange", "definition": format!("{a}-- versus --\n{b}"), "input": input, "detail": format!("{what}: {d}")}));
                    }
                }
            });
        }
    });
    viols.extend(found.into_inner().unwrap());
    json!({"rewrite_pairs": pairs.len(), "definition_pairs": jobs.len(), "states": states.into_inner(), "transitions": trans.into_inner(),
           "samples": jobs.iter().step_by(jobs.len() / 3 + 1).map(|j| json!({"lhs": j.0, "rhs": j.1, "what": j.2})).collect::<Vec<_>>()})
}

pub fn main(a: &[String]) {
    let cmd = a.get(1).map(|s| s.as_str()).unwrap_or("");
    std::panic::set_hook(Box::new(|_| {}));
    let t0 = Instant::now();
    let mut viols: Vec<Value> = vec![];
    let mut out = match cmd {
        "rangemap" => {
            // rangemap <universe> <tagged universe> <tagged depth>
            let n: u32 = a.get(2).and_then(|s| s.parse().ok()).unwrap_or(8);
            let tn: u32 = a.get(3).and_then(|s| s.parse().ok()).unwrap_or(5);
            let td: usize = a.get(4).and_then(|s| s.parse().ok()).unwrap_or(3);
            let unit = rangemap_unit(n, &mut viols);
            let tagged = rangemap_tagged(tn, td, &mut viols);
            let tagged2 = rangemap_tagged(n.min(7), 2, &mut viols);
            json!({"unit": unit, "tagged": tagged, "tagged_depth2": tagged2})
        }
        "classexpr" => {
            let depth: usize = a.get(2).and_then(|s| s.parse().ok()).unwrap_or(3);
            let stride: usize = a.get(3).and_then(|s| s.parse().ok()).unwrap_or(1);
            let reg = class_regress(&mut viols);
            let e = classexpr(depth, stride, &mut viols);
            json!({"regress": reg, "enumerated": e})
        }
        "builtins" => builtins_job(&mut viols),
        "signatures" => {
            let limit: usize = a.get(3).and_then(|s| s.parse().ok()).unwrap_or(usize::MAX);
            signatures_job(&a[2], limit)
        }
        "corpus" => {
            let cap: u64 = a.get(2).and_then(|s| s.parse().ok()).unwrap_or(300_000);
            corpus_job(cap, &mut viols)
        }
        "equiv" => {
            let k: usize = a.get(2).and_then(|s| s.parse().ok()).unwrap_or(2);
            equiv_job(k, &mut viols)
        }
        "parser" => {
            let size: usize = a.get(2).and_then(|s| s.parse().ok()).unwrap_or(4);
            let psize: usize = a.get(3).and_then(|s| s.parse().ok()).unwrap_or(3);
            let stride: usize = a.get(4).and_then(|s| s.parse().ok()).unwrap_or(1);
            parser_job(size, psize, stride, &mut viols)
        }
        _ => {
            eprintln!("unknown command {cmd:?}");
            std::process::exit(2);
        }
    };
    out["violations"] = json!(viols);
    out["wall_s"] = json!(t0.elapsed().as_secs_f64());
    println!("{out}");
}
