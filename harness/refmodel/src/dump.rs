//! Parser for the text snapshot written by lexgen's `--cfg lexgen_verif` hook
//! (`verif_dump::dump_string`).

#[derive(Clone, Debug, PartialEq, Eq, Hash)]
pub enum Target {
    State(usize),
    /// ordered list of (action = global rule id, right context index)
    Accept(Vec<(usize, Option<usize>)>),
}

#[derive(Clone, Debug, PartialEq, Eq, Hash, Default)]
pub struct DState {
    pub initial: bool,
    pub backtrack: bool,
    pub accepting: Vec<(usize, Option<usize>)>,
    pub preds: Vec<usize>,
    pub chars: Vec<(u32, Target)>,
    pub ranges: Vec<(u32, u32, Target)>,
    pub any: Option<Target>,
    pub eoi: Option<Target>,
}

#[derive(Clone, Debug, PartialEq, Eq, Hash, Default)]
pub struct Dump {
    pub lexer: String,
    pub entries: Vec<(String, usize)>,
    pub states: Vec<DState>,
    pub ctxs: Vec<Vec<DState>>,
}

fn parse_acc(s: &str) -> Result<Vec<(usize, Option<usize>)>, String> {
    let inner = s.strip_prefix('[').and_then(|s| s.strip_suffix(']')).ok_or_else(|| format!("bad accept list {s:?}"))?;
    if inner.is_empty() {
        return Ok(vec![]);
    }
    inner
        .split(',')
        .map(|e| {
            let (a, c) = e.split_once(':').ok_or_else(|| format!("bad accept entry {e:?}"))?;
            let a: usize = a.parse().map_err(|_| format!("bad action {a:?}"))?;
            let c = if c == "-" { None } else { Some(c.parse::<usize>().map_err(|_| format!("bad ctx {c:?}"))?) };
            Ok((a, c))
        })
        .collect()
}

fn parse_target(s: &str) -> Result<Target, String> {
    if let Some(n) = s.strip_prefix('s') {
        Ok(Target::State(n.parse().map_err(|_| format!("bad state {s:?}"))?))
    } else if let Some(l) = s.strip_prefix('a') {
        Ok(Target::Accept(parse_acc(l)?))
    } else {
        Err(format!("bad target {s:?}"))
    }
}

impl Dump {
    pub fn parse(text: &str) -> Result<Dump, String> {
        let mut d = Dump::default();
        let mut lines = text.lines();
        if lines.next() != Some("lexgen-verif-dump 1") {
            return Err("bad header".into());
        }
        // which automaton are we filling: None = main
        let mut cur_ctx: Option<usize> = None;
        let mut ended = false;
        for line in lines {
            let mut it = line.split(' ');
            let kw = it.next().unwrap_or("");
            let rest: Vec<&str> = it.collect();
            let states: &mut Vec<DState> = match cur_ctx {
                None => &mut d.states,
                Some(i) => &mut d.ctxs[i],
            };
            match kw {
                "lexer" => d.lexer = rest.join(" "),
                "entry" => d.entries.push((rest[0].to_string(), rest[1].parse().map_err(|_| "bad entry")?)),
                "dfa" => {}
                "ctx" => {
                    let i: usize = rest[0].parse().map_err(|_| "bad ctx idx")?;
                    if i != d.ctxs.len() {
                        return Err("ctx indices not consecutive".into());
                    }
                    d.ctxs.push(vec![]);
                    cur_ctx = Some(i);
                }
                "state" => {
                    let idx: usize = rest[0].parse().map_err(|_| "bad state idx")?;
                    if idx != states.len() {
                        return Err("state indices not consecutive".into());
                    }
                    let mut st = DState::default();
                    for kv in &rest[1..] {
                        let (k, v) = kv.split_once('=').ok_or("bad state attr")?;
                        match k {
                            "initial" => st.initial = v == "1",
                            "backtrack" => st.backtrack = v == "1",
                            "accepting" => st.accepting = parse_acc(v)?,
                            "preds" => {
                                st.preds = if v.is_empty() { vec![] } else { v.split(',').map(|p| p.parse().map_err(|_| "bad pred")).collect::<Result<_, _>>()? }
                            }
                            _ => return Err(format!("unknown state attr {k}")),
                        }
                    }
                    states.push(st);
                }
                "char" => {
                    let c: u32 = rest[0].parse().map_err(|_| "bad char")?;
                    let t = parse_target(rest[1])?;
                    states.last_mut().ok_or("char before state")?.chars.push((c, t));
                }
                "range" => {
                    let s: u32 = rest[0].parse().map_err(|_| "bad range")?;
                    let e: u32 = rest[1].parse().map_err(|_| "bad range")?;
                    let t = parse_target(rest[2])?;
                    states.last_mut().ok_or("range before state")?.ranges.push((s, e, t));
                }
                "any" => states.last_mut().ok_or("any before state")?.any = Some(parse_target(rest[0])?),
                "eoi" => states.last_mut().ok_or("eoi before state")?.eoi = Some(parse_target(rest[0])?),
                "end" => ended = true,
                "" => {}
                _ => return Err(format!("unknown line {line:?}")),
            }
        }
        if !ended {
            return Err("truncated dump".into());
        }
        Ok(d)
    }

    pub fn entry(&self, name: &str) -> Option<usize> {
        self.entries.iter().find(|(n, _)| n == name).map(|(_, s)| *s)
    }
}

/// The documented lookup order of a DFA state: char > range > any.
pub fn lookup<'a>(st: &'a DState, c: u32) -> Option<&'a Target> {
    if let Some((_, t)) = st.chars.iter().find(|(k, _)| *k == c) {
        return Some(t);
    }
    if let Some((_, _, t)) = st.ranges.iter().find(|(a, b, _)| *a <= c && c <= *b) {
        return Some(t);
    }
    st.any.as_ref()
}
