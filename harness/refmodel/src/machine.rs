//! M — an abstract machine that executes a DFA dump the way the code emitted by
//! `dfa/codegen.rs` (plus `lexgen_util::Lexer`) does. It is a *model of the code generator*; it is
//! never trusted on its own but bound to the real generated code by trace replay.

use crate::dump::{lookup, DState, Dump, Target};
use crate::spec::*;
use crate::trace::{loc_at, Ev, Item, Loc, Step};
use std::collections::HashSet;

pub struct Machine<'a> {
    pub dump: &'a Dump,
    pub spec: &'a Spec,
    /// entry state of rule set k (index into spec.sets)
    entries: Vec<usize>,
    /// rule kind by global rule id
    kinds: Vec<Kind>,
    pub input: Vec<char>,
    pub pos: usize,
    pub mstart: usize,
    pub state: usize,
    pub initial_state: usize,
    pub done: bool,
    /// (match start, iterator position = match end, action)
    pub last_match: Option<(usize, usize, usize)>,
    script: Vec<u8>,
    cur: usize,
    has_str: bool,
    /// distinct control configurations visited (for coverage reporting)
    pub configs: HashSet<(usize, usize, bool, bool)>,
    pub transitions: u64,
}

enum Flow {
    /// keep looping in `next()`
    Loop,
    Ret(Item),
}

impl<'a> Machine<'a> {
    pub fn new(dump: &'a Dump, spec: &'a Spec, input: &str, script: &[u8], has_str: bool) -> Result<Self, String> {
        let mut entries = vec![];
        if spec.is_named() {
            for k in 0..spec.sets.len() {
                entries.push(dump.entry(&spec.set_name(k)).ok_or_else(|| format!("dump has no entry for {}", spec.set_name(k)))?);
            }
        } else {
            entries.push(0);
        }
        let mut kinds = vec![Kind::Skip; spec.n_rules()];
        let ids = spec.rule_ids();
        for (si, set) in spec.sets.iter().enumerate() {
            for (ri, r) in set.rules.iter().enumerate() {
                kinds[ids[si][ri]] = r.kind;
            }
        }
        Ok(Machine {
            dump,
            spec,
            entries,
            kinds,
            input: input.chars().collect(),
            pos: 0,
            mstart: 0,
            state: 0,
            initial_state: 0,
            done: false,
            last_match: None,
            script: script.to_vec(),
            cur: 0,
            has_str,
            configs: HashSet::new(),
            transitions: 0,
        })
    }

    fn loc(&self, i: usize) -> Loc {
        loc_at(&self.input, i)
    }

    pub fn probe(&self) -> (Loc, Loc, Option<char>) {
        (self.loc(self.mstart), self.loc(self.pos), self.input.get(self.pos).copied())
    }

    /// The generated `<Lexer>_RIGHT_CTX_<n>` function on a clone of the iterator.
    fn right_ctx(&self, idx: usize) -> bool {
        let states: &Vec<DState> = &self.dump.ctxs[idx];
        let mut state = 0usize;
        let mut p = self.pos;
        let mut steps = 0usize;
        loop {
            steps += 1;
            if steps > self.input.len() + states.len() + 4 {
                // the generated function would spin on repeated end-of-input; never for `$`-at-tail contexts
                return false;
            }
            let st = &states[state];
            if !st.accepting.is_empty() {
                return true;
            }
            match self.input.get(p) {
                None => match &st.eoi {
                    Some(Target::State(n)) => state = *n,
                    _ => return false,
                },
                Some(&c) => {
                    p += 1;
                    // char arms, then range arms, then `_`
                    let t = st
                        .chars
                        .iter()
                        .find(|(k, _)| *k == c as u32)
                        .map(|(_, t)| t)
                        .or_else(|| st.ranges.iter().find(|(a, b, _)| *a <= c as u32 && c as u32 <= *b).map(|(_, _, t)| t))
                        .or(st.any.as_ref());
                    match t {
                        Some(Target::State(n)) => state = *n,
                        _ => return false,
                    }
                }
            }
        }
    }

    fn reset_match(&mut self) {
        self.mstart = self.pos;
    }

    /// `generate_semantic_action_call`: run the user action of `action` and handle its result.
    fn call_action(&mut self, action: usize, events: &mut Vec<Ev>) -> Flow {
        let kind = self.kinds[action];
        // --- the user-side action (glue `act`/`act_f`, or the sugar forms)
        let decision = match kind {
            Kind::Skip => D_RESET_CONTINUE,
            Kind::Simple => D_RETURN,
            Kind::Act(def) | Kind::Fallible(def) => {
                events.push(Ev {
                    rule: action,
                    start: self.loc(self.mstart),
                    end: self.loc(self.pos),
                    text: if self.has_str { Some(self.input[self.mstart..self.pos].iter().collect()) } else { None },
                    peek: self.input.get(self.pos).copied(),
                });
                let d = self.script.get(self.cur).copied().unwrap_or(D_DEFAULT);
                self.cur += 1;
                if d == D_DEFAULT {
                    def
                } else {
                    d
                }
            }
        };
        let named = self.spec.is_named();
        let scripted = matches!(kind, Kind::Act(_) | Kind::Fallible(_));
        let nsets = self.spec.sets.len();
        // Ok(Some(tok)) = Return(Ok), Err = Return(Err), Ok(None) = Continue
        let result: Result<Option<usize>, u32> = match decision {
            D_CONTINUE => Ok(None),
            D_RESET_CONTINUE => {
                self.reset_match();
                Ok(None)
            }
            D_RESET_RETURN if scripted => {
                self.reset_match();
                Ok(Some(action))
            }
            D_ERR if matches!(kind, Kind::Fallible(_)) => Err(1000 + action as u32),
            d if named && matches!(kind, Kind::Fallible(_)) && d >= 200 && d < 240 => {
                let k = (d - 200) as usize;
                self.state = self.entries[if k < nsets { k } else { 0 }];
                self.initial_state = self.state;
                Err(1000 + action as u32)
            }
            d if scripted && named && d >= 3 && d < 200 && d % 2 == 1 => {
                let k = ((d - 3) / 2) as usize;
                self.state = self.entries[if k < nsets { k } else { 0 }];
                self.initial_state = self.state;
                Ok(None)
            }
            d if scripted && named && d >= 4 && d < 200 => {
                let k = ((d - 4) / 2) as usize;
                self.state = self.entries[if k < nsets { k } else { 0 }];
                self.initial_state = self.state;
                Ok(Some(action))
            }
            _ => Ok(Some(action)),
        };
        // --- generated code around the call
        self.state = self.initial_state;
        match result {
            Ok(None) => Flow::Loop,
            Ok(Some(tok)) => {
                let (ms, me) = (self.loc(self.mstart), self.loc(self.pos));
                self.reset_match();
                Flow::Ret(Item::Tok(ms, tok, me))
            }
            Err(e) => {
                let ms = self.loc(self.mstart);
                self.reset_match();
                Flow::Ret(Item::Custom(e, ms))
            }
        }
    }

    /// `generate_rhs_code`
    fn rhs(&mut self, action: usize, events: &mut Vec<Ev>) -> Flow {
        self.last_match = None;
        self.call_action(action, events)
    }

    /// the `fail` closure of `generate_state`
    fn fail(&mut self, st_idx: usize, events: &mut Vec<Ev>) -> Flow {
        let dump: &'a Dump = self.dump;
        let st = &dump.states[st_idx];
        if st.backtrack || !st.accepting.is_empty() {
            match self.last_match.take() {
                None => {
                    self.state = 0;
                    self.initial_state = 0;
                    let loc = self.loc(self.mstart);
                    self.reset_match();
                    Flow::Ret(Item::Invalid(loc))
                }
                Some((ms, me, action)) => {
                    self.done = false;
                    self.mstart = ms;
                    self.pos = me;
                    self.call_action(action, events)
                }
            }
        } else {
            let loc = self.loc(self.mstart);
            self.reset_match();
            self.state = 0;
            self.initial_state = 0;
            Flow::Ret(Item::Invalid(loc))
        }
    }

    /// `test_right_ctxs` with the given default
    fn accept_edge(&mut self, list: &[(usize, Option<usize>)], events: &mut Vec<Ev>) -> Option<Flow> {
        for &(action, ctx) in list {
            match ctx {
                None => return Some(self.rhs(action, events)),
                Some(c) => {
                    if self.right_ctx(c) {
                        return Some(self.rhs(action, events));
                    }
                }
            }
        }
        None
    }

    pub fn next(&mut self) -> Step {
        let mut events = vec![];
        let item = loop {
            if self.done {
                break Item::None;
            }
            self.configs.insert((self.state, self.initial_state, self.done, self.last_match.is_some()));
            self.transitions += 1;
            let st_idx = self.state;
            if st_idx >= self.dump.states.len() {
                break Item::Panic(format!("model: state {st_idx} out of range"));
            }
            let dump: &'a Dump = self.dump;
            let st: &'a DState = &dump.states[st_idx];
            // set_accepting_state chain
            for &(action, ctx) in &st.accepting {
                match ctx {
                    None => {
                        self.last_match = Some((self.mstart, self.pos, action));
                        break;
                    }
                    Some(c) => {
                        if self.right_ctx(c) {
                            self.last_match = Some((self.mstart, self.pos, action));
                            break;
                        }
                    }
                }
            }
            let flow = match self.input.get(self.pos).copied() {
                None => {
                    self.done = true;
                    let by_edge = match &st.eoi {
                        Some(Target::Accept(list)) => self.accept_edge(list, &mut events),
                        Some(Target::State(n)) => {
                            self.state = *n;
                            Some(Flow::Loop)
                        }
                        None => None,
                    };
                    match by_edge {
                        Some(f) => f,
                        None => {
                            if st_idx == 0 {
                                Flow::Ret(Item::None)
                            } else {
                                self.fail(st_idx, &mut events)
                            }
                        }
                    }
                }
                Some(c) => {
                    self.pos += 1;
                    let c = c as u32;
                    // specific (char / range) arm first
                    let specific = st
                        .chars
                        .iter()
                        .find(|(k, _)| *k == c)
                        .map(|(_, t)| t)
                        .or_else(|| st.ranges.iter().find(|(a, b, _)| *a <= c && c <= *b).map(|(_, _, t)| t));
                    let mut flow = None;
                    match specific {
                        Some(Target::State(n)) => {
                            self.state = *n;
                            flow = Some(Flow::Loop);
                        }
                        Some(Target::Accept(list)) => flow = self.accept_edge(list, &mut events),
                        None => {}
                    }
                    if flow.is_none() {
                        // default action: the `_` transition, else fail
                        match &st.any {
                            Some(Target::State(n)) => {
                                self.state = *n;
                                flow = Some(Flow::Loop);
                            }
                            Some(Target::Accept(list)) => flow = self.accept_edge(list, &mut events),
                            None => {}
                        }
                    }
                    match flow {
                        Some(f) => f,
                        None => self.fail(st_idx, &mut events),
                    }
                }
            };
            match flow {
                Flow::Loop => continue,
                Flow::Ret(it) => break it,
            }
        };
        Step { events, item, probe: Some(self.probe()) }
    }
}

// keep `lookup` referenced (used by product exploration)
#[allow(dead_code)]
fn _uses(st: &DState) -> Option<&Target> {
    lookup(st, 0)
}
