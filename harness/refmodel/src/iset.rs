//! Plain interval-set arithmetic over `u32` code points (sorted, disjoint, non-adjacent lists of
//! inclusive intervals). Deliberately shares nothing with lexgen's `RangeMap`.

pub type ISet = Vec<(u32, u32)>;

pub const MAX_CP: u32 = 0x10FFFF;

pub fn norm(mut v: Vec<(u32, u32)>) -> ISet {
    v.retain(|(s, e)| s <= e);
    v.sort();
    let mut out: ISet = vec![];
    for (s, e) in v {
        if let Some(l) = out.last_mut() {
            if s <= l.1.saturating_add(1) {
                l.1 = l.1.max(e);
                continue;
            }
        }
        out.push((s, e));
    }
    out
}

pub fn union(a: &ISet, b: &ISet) -> ISet {
    let mut v = a.clone();
    v.extend(b.iter().copied());
    norm(v)
}

pub fn diff(a: &ISet, b: &ISet) -> ISet {
    let mut out = vec![];
    for &(s, e) in a {
        let mut cur = s;
        let mut dead = false;
        for &(bs, be) in b {
            if be < cur || bs > e {
                continue;
            }
            if bs > cur {
                out.push((cur, bs - 1));
            }
            if be >= e {
                dead = true;
                break;
            }
            cur = be + 1;
        }
        if !dead && cur <= e {
            out.push((cur, e));
        }
    }
    norm(out)
}

pub fn contains(a: &[(u32, u32)], c: u32) -> bool {
    // binary search: tables can be large (built-ins)
    let mut lo = 0usize;
    let mut hi = a.len();
    while lo < hi {
        let mid = (lo + hi) / 2;
        let (s, e) = a[mid];
        if c < s {
            hi = mid;
        } else if c > e {
            lo = mid + 1;
        } else {
            return true;
        }
    }
    false
}

/// Removes the surrogate gap: scalar values only.
pub fn scalar_only(a: &ISet) -> ISet {
    diff(a, &vec![(0xD800, 0xDFFF)])
}

pub fn count(a: &ISet) -> u64 {
    a.iter().map(|(s, e)| (*e - *s + 1) as u64).sum()
}

#[cfg(test)]
mod tests {
    use super::*;
    #[test]
    fn diff_basic() {
        assert_eq!(diff(&vec![(0, 10)], &vec![(3, 4), (6, 6)]), vec![(0, 2), (5, 5), (7, 10)]);
        assert_eq!(diff(&vec![(0, 5), (7, 9)], &vec![(0, 8)]), vec![(9, 9)]);
        assert_eq!(diff(&vec![(0, MAX_CP)], &vec![(0, MAX_CP)]), vec![]);
        assert_eq!(diff(&vec![(5, 9)], &vec![(0, 5), (9, 20)]), vec![(6, 8)]);
    }
    #[test]
    fn bitset_agreement() {
        // exhaustive over a universe of 6 points: every pair of subsets
        let to_set = |m: u32| -> ISet { norm((0..6).filter(|i| m >> i & 1 == 1).map(|i| (i, i)).collect()) };
        let to_mask = |s: &ISet| -> u32 { (0..6).filter(|i| contains(s, *i)).map(|i| 1 << i).sum() };
        for a in 0..64u32 {
            for b in 0..64u32 {
                assert_eq!(to_mask(&diff(&to_set(a), &to_set(b))), a & !b);
                assert_eq!(to_mask(&union(&to_set(a), &to_set(b))), a | b);
            }
        }
    }
}
