//! R — the reference lexer: the protocol of the properties written as straight-line code over a
//! `Vec<char>`, regex meaning by derivatives. Shares no code and no algorithm with lexgen.

use crate::deriv::{deriv, from_re, has_extension, is_empty, nullable, Sym, D};
use crate::re::Env;
use crate::spec::*;
use crate::trace::{loc_at, Ev, Item, Loc, Step};

/// Facts about one reference `next()` call that the per-property oracles need.
#[derive(Clone, Debug, Default, PartialEq, Eq)]
pub struct RInfo {
    /// Rule set active at the start of every match attempt made during this call.
    pub active_sets: Vec<usize>,
    /// Number of selected matches that were shorter than the longest viable prefix (= rewinds).
    pub rewinds: usize,
    /// The call ended because no rule matched at the current position.
    pub no_candidate: bool,
    /// Char positions the lexer may resume at after this call's failure (empty if no failure).
    pub allowed_resume: Vec<usize>,
    /// Number of matches selected in this call.
    pub matches: usize,
    /// Scan position (char index) at which the last match attempt of this call started.
    pub attempt_pos: usize,
    /// Some match in this call ended with `$`.
    pub eoi_match: bool,
}

pub struct RLexer<'a> {
    pub spec: &'a Spec,
    ids: Vec<Vec<usize>>,
    envs: Vec<Env>,
    pub input: Vec<char>,
    pub pos: usize,
    pub match_start: usize,
    pub rs: usize,
    pub done: bool,
    script: Vec<u8>,
    cur: usize,
    has_str: bool,
}

impl<'a> RLexer<'a> {
    pub fn new(spec: &'a Spec, input: &str, script: &[u8], has_str: bool) -> Self {
        RLexer {
            spec,
            ids: spec.rule_ids(),
            envs: (0..spec.sets.len()).map(|i| spec.env_of_set(i)).collect(),
            input: input.chars().collect(),
            pos: 0,
            match_start: 0,
            rs: 0,
            done: false,
            script: script.to_vec(),
            cur: 0,
            has_str,
        }
    }

    /// "some prefix of the input following position `p` (with end-of-input visible to `$`) is in
    /// the language of the context"
    fn ctx_ok(&self, ctx: &Option<crate::re::Re>, env: &Env, p: usize) -> bool {
        let Some(c) = ctx else { return true };
        let mut d = from_re(c, env);
        if nullable(&d) {
            return true;
        }
        for &ch in &self.input[p..] {
            d = deriv(&d, Sym::Ch(ch as u32));
            if is_empty(&d) {
                return false;
            }
            if nullable(&d) {
                return true;
            }
        }
        nullable(&deriv(&d, Sym::Eoi))
    }

    fn text(&self, a: usize, b: usize) -> String {
        self.input[a..b].iter().collect()
    }

    pub fn probe(&self) -> (Loc, Loc, Option<char>) {
        (loc_at(&self.input, self.match_start), loc_at(&self.input, self.pos), self.input.get(self.pos).copied())
    }

    /// Longest-match candidate at the current position in the active rule set:
    /// `(best = (len, through $, rule index), longest viable prefix length, derivatives there)`.
    pub fn candidates(&self) -> (Option<(usize, bool, usize)>, usize, Vec<D>) {
        let set = &self.spec.sets[self.rs];
        let env = &self.envs[self.rs];
        let rules = &set.rules;
        let rem = self.input.len() - self.pos;
        let mut dv: Vec<D> = rules.iter().map(|r| from_re(&r.re, env)).collect();
        let mut best: Option<(usize, bool, usize)> = None;
        let mut l = 0usize;
        loop {
            if l > 0 {
                if let Some(i) = (0..rules.len()).find(|&i| nullable(&dv[i]) && self.ctx_ok(&rules[i].ctx, env, self.pos + l)) {
                    best = Some((l, false, i));
                }
            }
            if l == rem {
                let de: Vec<D> = dv.iter().map(|d| deriv(d, Sym::Eoi)).collect();
                if let Some(i) = (0..rules.len()).find(|&i| nullable(&de[i]) && self.ctx_ok(&rules[i].ctx, env, self.pos + l)) {
                    best = Some((l, true, i));
                }
                break;
            }
            let c = self.input[self.pos + l];
            let dn: Vec<D> = dv.iter().map(|d| deriv(d, Sym::Ch(c as u32))).collect();
            if dn.iter().all(is_empty) {
                break;
            }
            dv = dn;
            l += 1;
        }
        (best, l, dv)
    }

    /// One reference `next()` call. `hint`: byte index at which the implementation resumed after
    /// this call (used only where the specification allows two resume positions).
    pub fn next(&mut self, hint: Option<usize>) -> (Step, RInfo) {
        let mut events = vec![];
        let mut info = RInfo::default();
        loop {
            if self.done {
                return (Step { events, item: Item::None, probe: Some(self.probe()) }, info);
            }
            info.active_sets.push(self.rs);
            info.attempt_pos = self.pos;
            let rem = self.input.len() - self.pos;
            let (best, v, dv_at_v) = self.candidates();
            match best {
                None => {
                    info.no_candidate = true;
                    let start_loc = loc_at(&self.input, self.match_start);
                    if rem == 0 {
                        // input exhausted at a lexeme boundary: nothing of a further lexeme was read
                        self.done = true;
                        if self.rs == 0 {
                            info.no_candidate = false;
                            return (Step { events, item: Item::None, probe: Some(self.probe()) }, info);
                        }
                        self.match_start = self.pos;
                        self.rs = 0;
                        info.allowed_resume = vec![self.pos];
                        return (Step { events, item: Item::Invalid(start_loc), probe: Some(self.probe()) }, info);
                    }
                    // Is the longest viable prefix a complete match (that failed only on its right
                    // context) without any viable extension? Then the offending character may or
                    // may not have been read.
                    let complete = dv_at_v.iter().any(nullable);
                    let ext = has_extension(&dv_at_v);
                    let mut allowed = vec![];
                    if v == rem {
                        allowed.push(v);
                        if !(complete && !ext) {
                            self.done = true;
                        }
                    } else if complete && !ext && v > 0 {
                        allowed.push(v);
                        allowed.push(v + 1);
                    } else {
                        allowed.push(v + 1);
                    }
                    let byte = |k: usize| loc_at(&self.input, self.pos + k).byte_idx;
                    let skip = match hint {
                        Some(h) if allowed.len() > 1 => allowed.iter().copied().find(|&k| byte(k) == h).unwrap_or(allowed[0]),
                        _ => allowed[0],
                    };
                    info.allowed_resume = allowed.iter().map(|k| self.pos + k).collect();
                    self.pos += skip;
                    self.match_start = self.pos;
                    self.rs = 0;
                    return (Step { events, item: Item::Invalid(start_loc), probe: Some(self.probe()) }, info);
                }
                Some((l, eoi, i)) => {
                    info.matches += 1;
                    if l < v {
                        info.rewinds += 1;
                    }
                    self.pos += l;
                    if eoi {
                        self.done = true;
                        info.eoi_match = true;
                    }
                    let id = self.ids[self.rs][i];
                    let kind = self.spec.sets[self.rs].rules[i].kind;
                    let decision = match kind {
                        Kind::Skip => D_RESET_CONTINUE,
                        Kind::Simple => D_RETURN,
                        Kind::Act(def) | Kind::Fallible(def) => {
                            events.push(Ev {
                                rule: id,
                                start: loc_at(&self.input, self.match_start),
                                end: loc_at(&self.input, self.pos),
                                text: if self.has_str { Some(self.text(self.match_start, self.pos)) } else { None },
                                peek: self.input.get(self.pos).copied(),
                            });
                            let d = self.script.get(self.cur).copied().unwrap_or(D_DEFAULT);
                            self.cur += 1;
                            if d == D_DEFAULT {
                                def
                            } else {
                                d
                            }
                        }
                    };
                    let nsets = self.spec.sets.len();
                    let named = self.spec.is_named();
                    let scripted = matches!(kind, Kind::Act(_) | Kind::Fallible(_));
                    let mut ret = false;
                    match decision {
                        D_CONTINUE => {}
                        D_RESET_CONTINUE => {
                            self.match_start = self.pos;
                        }
                        D_RESET_RETURN if scripted => {
                            self.match_start = self.pos;
                            ret = true;
                        }
                        D_ERR if matches!(kind, Kind::Fallible(_)) => {
                            let s = loc_at(&self.input, self.match_start);
                            self.match_start = self.pos;
                            return (Step { events, item: Item::Custom(1000 + id as u32, s), probe: Some(self.probe()) }, info);
                        }
                        d if named && matches!(kind, Kind::Fallible(_)) && d >= 200 && d < 240 => {
                            let k = (d - 200) as usize;
                            self.rs = if k < nsets { k } else { 0 };
                            let s = loc_at(&self.input, self.match_start);
                            self.match_start = self.pos;
                            return (Step { events, item: Item::Custom(1000 + id as u32, s), probe: Some(self.probe()) }, info);
                        }
                        d if scripted && named && d >= 3 && d < 200 && d % 2 == 1 => {
                            let k = ((d - 3) / 2) as usize;
                            self.rs = if k < nsets { k } else { 0 };
                        }
                        d if scripted && named && d >= 4 && d < 200 => {
                            let k = ((d - 4) / 2) as usize;
                            self.rs = if k < nsets { k } else { 0 };
                            ret = true;
                        }
                        _ => {
                            ret = true;
                        }
                    }
                    if ret {
                        let s = loc_at(&self.input, self.match_start);
                        let e = loc_at(&self.input, self.pos);
                        self.match_start = self.pos;
                        return (Step { events, item: Item::Tok(s, id, e), probe: Some(self.probe()) }, info);
                    }
                }
            }
        }
    }
}

/// Reference maximal-munch tokenisation of a whole input in one rule set with return-only rules:
/// the sequence of `(rule id, lexeme)` pairs / `None` for an unlexable position.
pub fn reference_tokens(spec: &Spec, input: &str) -> Vec<Option<(usize, String)>> {
    let mut r = RLexer::new(spec, input, &[], true);
    let chars: Vec<char> = input.chars().collect();
    let mut out = vec![];
    for _ in 0..(4 * (chars.len() + 2)) {
        let before = r.pos;
        let (st, _) = r.next(None);
        match st.item {
            Item::None => break,
            Item::Tok(_, id, _) => out.push(Some((id, chars[before..r.pos].iter().collect()))),
            _ => out.push(None),
        }
    }
    out
}
