//! Product exploration: a compiled automaton (as dumped by lexgen) against the derivative
//! automaton of the definition, over *symbol classes* — i.e. over all strings, not samples.

use crate::deriv::{cuts_of, deriv, from_re, is_empty, nullable, Sym, D};
use crate::dump::{lookup, DState, Dump, Target};
use crate::spec::Spec;
use std::collections::{BTreeSet, HashSet, VecDeque};

#[derive(Clone, Debug, PartialEq, Eq, Hash)]
enum Q {
    St(usize),
    Term(Vec<(usize, Option<usize>)>),
}

#[derive(Debug, Default, Clone)]
pub struct Stats {
    pub states: u64,
    pub transitions: u64,
    pub ctx_states: u64,
    /// product states reached after an accepting position in which some symbol can fail
    pub rewind_obligations: u64,
    pub capped: bool,
}

#[derive(Debug, Clone, PartialEq, Eq)]
pub enum ViolKind {
    /// the DFA can move where no rule has a viable continuation, or the other way round
    Viability,
    /// the (truncated) ordered accept list differs from the rules that match here
    Accept,
    /// a state that can fail after an accepting position neither accepts nor is flagged to consult the saved match
    Rewind,
    /// an end-of-input edge does not lead to a terminal accept
    EoiNonTerminal,
    /// the right-context automaton disagrees with "some prefix of the rest (with `$`) matches"
    Ctx,
    /// entry state of a rule set missing / not flagged initial / accepting
    Entry,
    /// an accept list names a rule of another rule set
    Foreign,
}

#[derive(Debug, Clone)]
pub struct Viol {
    pub kind: ViolKind,
    pub set: usize,
    /// symbols leading from the rule set's entry state to the offending product state
    pub path: Vec<Sym>,
    pub detail: String,
}

impl Viol {
    pub fn path_string(&self) -> String {
        self.path.iter().filter_map(|s| if let Sym::Ch(c) = s { char::from_u32(*c) } else { None }).collect()
    }
    pub fn show_path(&self) -> String {
        self.path.iter().map(|s| s.show()).collect::<Vec<_>>().join("")
    }
}

fn rep(c: u32) -> u32 {
    if (0xD800..=0xDFFF).contains(&c) {
        0xE000
    } else {
        c
    }
}

fn dfa_cuts(states: &[DState], cuts: &mut BTreeSet<u32>) {
    for st in states {
        for (c, _) in &st.chars {
            cuts.insert(*c);
            cuts.insert(*c + 1);
        }
        for (s, e, _) in &st.ranges {
            cuts.insert(*s);
            cuts.insert(*e + 1);
        }
    }
}

fn symbols(ds: &[D], states: &[&[DState]]) -> Vec<Sym> {
    let mut cuts: BTreeSet<u32> = BTreeSet::new();
    cuts.insert(0);
    for d in ds {
        cuts_of(d, &mut cuts);
    }
    for s in states {
        dfa_cuts(s, &mut cuts);
    }
    let mut seen = BTreeSet::new();
    let mut syms = vec![Sym::Eoi];
    for c in cuts {
        if c > 0x10FFFF {
            continue;
        }
        let r = rep(c);
        if seen.insert(r) {
            syms.push(Sym::Ch(r));
        }
    }
    syms
}

fn trunc(l: &[(usize, bool)]) -> Vec<(usize, bool)> {
    let mut out = vec![];
    for &(r, c) in l {
        out.push((r, c));
        if !c {
            break;
        }
    }
    out
}

fn dfa_move(st: &DState, s: Sym) -> Option<Target> {
    match s {
        Sym::Eoi => st.eoi.clone(),
        Sym::Ch(c) => lookup(st, c).cloned(),
    }
}

pub const DEFAULT_STATE_CAP: u64 = 200_000;

/// Explore rule set `si` of `spec` against the main automaton of `dump`, from that rule set's
/// entry state. Checks (i) viability, (ii) accept lists, (iii) rewind soundness, (iv) `$` edges.
pub fn explore_set(spec: &Spec, dump: &Dump, si: usize, stats: &mut Stats, cap: u64) -> Vec<Viol> {
    let mut viols = vec![];
    let env = spec.env_of_set(si);
    let rules = &spec.sets[si].rules;
    let ids = &spec.rule_ids()[si];
    let entry = if spec.is_named() { dump.entry(&spec.set_name(si)) } else { Some(0) };
    let Some(entry) = entry else {
        viols.push(Viol { kind: ViolKind::Entry, set: si, path: vec![], detail: "no entry state recorded for rule set".into() });
        return viols;
    };
    if entry >= dump.states.len() {
        viols.push(Viol { kind: ViolKind::Entry, set: si, path: vec![], detail: format!("entry state {entry} out of range") });
        return viols;
    }
    // An entry state that is not protected from single-predecessor inlining has no code of its own
    // to switch to. (Which state number `Init` gets is the implementation's business: "lexing
    // starts in Init" is decided on real code by E.)
    if !dump.states[entry].initial && dump.states[entry].preds.len() == 1 {
        viols.push(Viol { kind: ViolKind::Entry, set: si, path: vec![], detail: format!("entry state {entry} is not flagged initial and has a single predecessor: it would be inlined away") });
    }
    let d0: Vec<D> = rules.iter().map(|r| from_re(&r.re, &env)).collect();
    let syms = symbols(&d0, &[&dump.states]);
    // map global action id -> (rule index in this set, has ctx)
    let local = |a: usize| -> Option<usize> { ids.iter().position(|&x| x == a) };

    let mut seen: HashSet<(Q, Vec<D>, bool)> = HashSet::new();
    let mut queue: VecDeque<((Q, Vec<D>, bool), Vec<Sym>)> = VecDeque::new();
    let start = (Q::St(entry), d0.clone(), false);
    seen.insert(start.clone());
    queue.push_back((start, vec![]));

    let check_acc = |acc: &[(usize, Option<usize>)], dv: &[D], path: &[Sym], viols: &mut Vec<Viol>| {
        let mut got = vec![];
        for &(a, c) in acc {
            match local(a) {
                Some(i) => got.push((i, c.is_some())),
                None => {
                    viols.push(Viol { kind: ViolKind::Foreign, set: si, path: path.to_vec(), detail: format!("accept list names action {a}, not a rule of this rule set") });
                    return;
                }
            }
        }
        let got = trunc(&got);
        let expected: Vec<(usize, bool)> =
            trunc(&dv.iter().enumerate().filter(|(_, d)| nullable(d)).map(|(i, _)| (i, rules[i].ctx.is_some())).collect::<Vec<_>>());
        if expected != got {
            viols.push(Viol { kind: ViolKind::Accept, set: si, path: path.to_vec(), detail: format!("dfa accept list (rule, has-ctx) {got:?}, reference {expected:?}") });
        }
    };
    check_acc(&dump.states[entry].accepting, &d0, &[], &mut viols);

    while let Some(((q, dv, passed), path)) = queue.pop_front() {
        stats.states += 1;
        if stats.states > cap {
            stats.capped = true;
            break;
        }
        let (st_acc, st_bt, st): (Vec<(usize, Option<usize>)>, bool, Option<&DState>) = match &q {
            Q::St(i) => (dump.states[*i].accepting.clone(), dump.states[*i].backtrack, Some(&dump.states[*i])),
            Q::Term(l) => (l.clone(), false, None),
        };
        let passed2 = passed || !st_acc.is_empty();
        let mut can_fail = false;
        for &s in &syms {
            stats.transitions += 1;
            let dv2: Vec<D> = dv.iter().map(|d| deriv(d, s)).collect();
            let ref_viable = dv2.iter().any(|d| !is_empty(d));
            let mv = st.and_then(|st| dfa_move(st, s));
            let mut p2 = path.clone();
            p2.push(s);
            if mv.is_none() && !(s == Sym::Eoi && q == Q::St(0)) {
                can_fail = true;
            }
            if mv.is_some() != ref_viable {
                viols.push(Viol {
                    kind: ViolKind::Viability,
                    set: si,
                    path: p2,
                    detail: format!("dfa has a move: {}, some rule has a viable continuation: {}", mv.is_some(), ref_viable),
                });
                continue;
            }
            let Some(mv) = mv else { continue };
            let (q2, acc2) = match mv {
                Target::State(i) => {
                    if i >= dump.states.len() {
                        viols.push(Viol { kind: ViolKind::Viability, set: si, path: p2, detail: format!("transition to missing state {i}") });
                        continue;
                    }
                    (Q::St(i), dump.states[i].accepting.clone())
                }
                Target::Accept(l) => {
                    if l.iter().all(|(_, c)| c.is_some()) {
                        can_fail = true;
                    }
                    (Q::Term(l.clone()), l)
                }
            };
            check_acc(&acc2, &dv2, &p2, &mut viols);
            if s == Sym::Eoi {
                // nothing can follow the end of input: the target must be terminal (an accept edge,
                // or a state without transitions)
                let terminal = match &q2 {
                    Q::Term(_) => true,
                    Q::St(i) => {
                        let t = &dump.states[*i];
                        t.chars.is_empty() && t.ranges.is_empty() && t.any.is_none() && t.eoi.is_none()
                    }
                };
                if !terminal {
                    viols.push(Viol { kind: ViolKind::EoiNonTerminal, set: si, path: p2, detail: "end-of-input edge leads to a state with transitions".into() });
                }
                continue;
            }
            let next = (q2, dv2, passed2);
            if seen.insert(next.clone()) {
                queue.push_back((next, p2));
            }
        }
        if let Q::St(i) = &q {
            if passed && can_fail {
                stats.rewind_obligations += 1;
                if !(st_bt || !st_acc.is_empty()) {
                    viols.push(Viol {
                        kind: ViolKind::Rewind,
                        set: si,
                        path: path.clone(),
                        detail: format!("state {i} is reachable after an accepting position, can fail, but is neither accepting nor flagged backtrack"),
                    });
                }
            }
        }
        if viols.len() > 50 {
            break;
        }
    }
    viols
}

/// A right-context automaton against "some prefix of rest·$ is in L(ctx)".
pub fn explore_ctx(spec: &Spec, dump: &Dump, si: usize, ctx_idx: usize, ctx: &crate::re::Re, stats: &mut Stats, cap: u64) -> Vec<Viol> {
    let env = spec.env_of_set(si);
    let mut viols = vec![];
    let Some(view) = dump.ctxs.get(ctx_idx) else {
        return vec![Viol { kind: ViolKind::Ctx, set: si, path: vec![], detail: format!("no right-context automaton {ctx_idx}") }];
    };
    let d0 = from_re(ctx, &env);
    let syms = symbols(&[d0.clone()], &[view]);
    let n = view.len();
    let succ = |i: usize| -> Vec<usize> {
        let mut v = vec![];
        let mut push = |t: &Target| {
            if let Target::State(j) = t {
                v.push(*j)
            }
        };
        for (_, t) in &view[i].chars {
            push(t)
        }
        for (_, _, t) in &view[i].ranges {
            push(t)
        }
        if let Some(t) = &view[i].any {
            push(t)
        }
        if let Some(t) = &view[i].eoi {
            push(t)
        }
        v
    };
    let mut live = vec![false; n];
    loop {
        let mut changed = false;
        for i in 0..n {
            if !live[i] && (!view[i].accepting.is_empty() || succ(i).iter().any(|j| *j < n && live[*j])) {
                live[i] = true;
                changed = true;
            }
        }
        if !changed {
            break;
        }
    }
    let mut seen: HashSet<(usize, D, bool)> = HashSet::new();
    let mut queue: VecDeque<((usize, D, bool), Vec<Sym>)> = VecDeque::new();
    let start = (0usize, d0, false);
    seen.insert(start.clone());
    queue.push_back((start, vec![]));
    while let Some(((s, d, after_eoi), path)) = queue.pop_front() {
        stats.ctx_states += 1;
        if stats.ctx_states > cap {
            stats.capped = true;
            break;
        }
        let acc = !view[s].accepting.is_empty();
        if acc != nullable(&d) {
            viols.push(Viol { kind: ViolKind::Ctx, set: si, path: path.clone(), detail: format!("ctx {ctx_idx}: verdict here: dfa={} reference={}", acc, nullable(&d)) });
            continue;
        }
        if acc {
            continue; // TRUE is absorbing on both sides
        }
        for &sym in &syms {
            if after_eoi {
                // the generated function keeps reading `None`; the reference has a single `$`
                if sym == Sym::Eoi {
                    if let Some(Target::State(j)) = &view[s].eoi {
                        if *j < n && live[*j] {
                            viols.push(Viol { kind: ViolKind::Ctx, set: si, path: path.clone(), detail: format!("ctx {ctx_idx}: may accept after a second end-of-input") });
                        }
                    }
                }
                continue;
            }
            stats.transitions += 1;
            let d2 = deriv(&d, sym);
            let mv = dfa_move(&view[s], sym);
            let mut p2 = path.clone();
            p2.push(sym);
            let dfa_live = match &mv {
                Some(Target::State(j)) => *j < n && live[*j],
                _ => false,
            };
            if dfa_live != !is_empty(&d2) {
                viols.push(Viol { kind: ViolKind::Ctx, set: si, path: p2, detail: format!("ctx {ctx_idx}: dfa can still accept: {}, reference viable: {}", dfa_live, !is_empty(&d2)) });
                continue;
            }
            if !dfa_live {
                continue;
            }
            let Some(Target::State(j)) = mv else { unreachable!() };
            let next = (j, d2, sym == Sym::Eoi);
            if seen.insert(next.clone()) {
                queue.push_back((next, p2));
            }
        }
        if viols.len() > 50 {
            break;
        }
    }
    viols
}

/// Explore every rule set and every right context of a definition.
pub fn explore_spec(spec: &Spec, dump: &Dump, stats: &mut Stats, cap: u64) -> Vec<Viol> {
    let mut viols = vec![];
    for si in 0..spec.sets.len() {
        viols.extend(explore_set(spec, dump, si, stats, cap));
    }
    // Which automaton guards which rule is the implementation's business (it may share automata
    // between identical contexts): take the index the rule's accept entries carry, require it to be
    // the same everywhere, and check *that* automaton against the rule's own context regex,
    // resolved in the rule's own rule set.
    let ids = spec.rule_ids();
    let mut used: Vec<Option<Option<usize>>> = vec![None; spec.n_rules()];
    let mut inconsistent = false;
    {
        let mut see = |l: &[(usize, Option<usize>)]| {
            for &(a, c) in l {
                if a < used.len() {
                    match used[a] {
                        None => used[a] = Some(c),
                        Some(prev) if prev != c => inconsistent = true,
                        _ => {}
                    }
                }
            }
        };
        for st in &dump.states {
            see(&st.accepting);
            for t in st.chars.iter().map(|(_, t)| t).chain(st.ranges.iter().map(|(_, _, t)| t)).chain(st.any.iter()).chain(st.eoi.iter()) {
                if let Target::Accept(l) = t {
                    see(l);
                }
            }
        }
    }
    if inconsistent {
        viols.push(Viol { kind: ViolKind::Ctx, set: 0, path: vec![], detail: "a rule is guarded by different right-context automata in different accept entries".into() });
    }
    for si in 0..spec.sets.len() {
        for (ri, r) in spec.sets[si].rules.iter().enumerate() {
            let id = ids[si][ri];
            match (&r.ctx, used[id]) {
                (Some(c), Some(Some(idx))) => viols.extend(explore_ctx(spec, dump, si, idx, c, stats, cap)),
                (Some(_), Some(None)) => viols.push(Viol { kind: ViolKind::Ctx, set: si, path: vec![], detail: format!("rule {id} has a right context but its accept entries carry none") }),
                (None, Some(Some(idx))) => viols.push(Viol { kind: ViolKind::Ctx, set: si, path: vec![], detail: format!("rule {id} has no right context but its accept entries carry context {idx}") }),
                _ => {} // the rule never accepts anywhere reachable: nothing to check
            }
        }
    }
    viols
}

/// Bisimulation of two dumps' main automata from their `Init` entry (equal languages, equal
/// truncated accept lists under the rule mapping given by position) over all strings.
pub fn equivalent(a: &Dump, b: &Dump, stats: &mut Stats, cap: u64) -> Result<(), (Vec<Sym>, String)> {
    let syms = {
        let mut cuts = BTreeSet::new();
        cuts.insert(0);
        dfa_cuts(&a.states, &mut cuts);
        dfa_cuts(&b.states, &mut cuts);
        let mut v = vec![Sym::Eoi];
        let mut seen = BTreeSet::new();
        for c in cuts {
            if c <= 0x10FFFF && seen.insert(rep(c)) {
                v.push(Sym::Ch(rep(c)));
            }
        }
        v
    };
    let tr = |l: &[(usize, Option<usize>)]| -> Vec<(usize, bool)> { trunc(&l.iter().map(|(r, c)| (*r, c.is_some())).collect::<Vec<_>>()) };
    let acc_of = |d: &Dump, q: &Q| -> Vec<(usize, bool)> {
        match q {
            Q::St(i) => tr(&d.states[*i].accepting),
            Q::Term(l) => tr(l),
        }
    };
    let mv = |d: &Dump, q: &Q, s: Sym| -> Option<Q> {
        match q {
            Q::Term(_) => None,
            Q::St(i) => dfa_move(&d.states[*i], s).map(|t| match t {
                Target::State(j) => Q::St(j),
                Target::Accept(l) => Q::Term(l),
            }),
        }
    };
    let mut seen: HashSet<(Q, Q)> = HashSet::new();
    let mut queue: VecDeque<((Q, Q), Vec<Sym>)> = VecDeque::new();
    seen.insert((Q::St(0), Q::St(0)));
    queue.push_back(((Q::St(0), Q::St(0)), vec![]));
    while let Some(((qa, qb), path)) = queue.pop_front() {
        stats.states += 1;
        if stats.states > cap {
            stats.capped = true;
            return Ok(());
        }
        if acc_of(a, &qa) != acc_of(b, &qb) {
            return Err((path, format!("accept lists differ: {:?} vs {:?}", acc_of(a, &qa), acc_of(b, &qb))));
        }
        for &s in &syms {
            stats.transitions += 1;
            let (na, nb) = (mv(a, &qa, s), mv(b, &qb, s));
            let mut p2 = path.clone();
            p2.push(s);
            match (na, nb) {
                (None, None) => {}
                (Some(x), Some(y)) => {
                    if seen.insert((x.clone(), y.clone())) {
                        queue.push_back(((x, y), p2));
                    }
                }
                (x, y) => return Err((p2, format!("one side can move, the other cannot: {} vs {}", x.is_some(), y.is_some()))),
            }
        }
    }
    Ok(())
}
