//! Writes the batch crate for one property/tier: `e2e_gen <prop> <tier> <outdir> <nbins> <refmodel path> [exclude gid,...]`
use refmodel::e2e::flatten;
use refmodel::families::groups;
use std::fmt::Write;

fn main() {
    let a: Vec<String> = std::env::args().collect();
    let (prop, tier, outdir) = (&a[1], &a[2], &a[3]);
    let nbins: usize = a[4].parse().unwrap();
    let refmodel_path = &a[5];
    let exclude: std::collections::HashSet<usize> = a.get(6).map(|s| s.split(',').filter(|x| !x.is_empty()).map(|x| x.parse().unwrap()).collect()).unwrap_or_default();
    // optional 7th argument: build only this lexer (targeted replay)
    let only: Option<usize> = a.get(7).and_then(|s| s.parse().ok());
    let gs = groups(prop, tier);
    let flat = flatten(&gs);
    let included: Vec<usize> = (0..flat.len()).filter(|g| !exclude.contains(g) && only.map(|o| o == *g).unwrap_or(true)).collect();
    let nbins = nbins.min(included.len().max(1));
    std::fs::create_dir_all(format!("{outdir}/src/bin")).unwrap();
    let pkg = format!("{}_{}", prop.to_lowercase(), tier);
    let prefix = format!("{}{}", prop.to_lowercase(), &tier[..1]);
    let cargo = format!(
        r#"[package]
name = "e2e_batch_{pkg}"
version = "0.1.0"
edition = "2021"

[dependencies]
lexgen = {{ path = "/repo/crates/lexgen" }}
lexgen_util = {{ path = "/repo/crates/lexgen_util" }}
refmodel = {{ path = "{refmodel_path}" }}

[workspace]

[profile.release]
opt-level = 1
debug = false
incremental = false
codegen-units = 4
panic = "unwind"

[profile.release.package."*"]
opt-level = 3

[profile.release.build-override]
opt-level = 3
"#
    );
    write_if_changed(&format!("{outdir}/Cargo.toml"), &cargo);
    let mut lines = String::new();
    // interleave lexers over bins so that expensive families spread out
    for b in 0..nbins {
        let mine: Vec<usize> = included.iter().copied().enumerate().filter(|(k, _)| k % nbins == b).map(|(_, g)| g).collect();
        let mut src = String::new();
        src += "#![allow(dead_code, unused, non_snake_case, non_camel_case_types, non_upper_case_globals, clippy::all)]\nuse refmodel::trace::H;\n";
        let mut line = 3; // next line number (1-based)
        for &gid in &mine {
            let (g, i) = flat[gid];
            let m = gs[g].specs[i].print_module(gid);
            let n = m.matches('\n').count();
            writeln!(lines, "{prefix}_b{b}.rs {line} {} {gid}", line + n - 1).unwrap();
            src += &m;
            line += n;
        }
        src += &format!("fn main() {{\n    refmodel::e2e::batch_main({prop:?}, {tier:?}, &[\n");
        for &gid in &mine {
            src += &format!("        ({gid}, m{gid}::run as refmodel::trace::Runner),\n");
        }
        src += "    ]);\n}\n";
        write_if_changed(&format!("{outdir}/src/bin/{prefix}_b{b}.rs"), &src);
    }
    // remove stale bins
    for e in std::fs::read_dir(format!("{outdir}/src/bin")).unwrap().flatten() {
        let name = e.file_name().to_string_lossy().to_string();
        let keep = name.strip_prefix(&format!("{prefix}_b")).and_then(|s| s.strip_suffix(".rs")).and_then(|s| s.parse::<usize>().ok()).map(|n| n < nbins).unwrap_or(false);
        if !keep {
            std::fs::remove_file(e.path()).unwrap();
        }
    }
    std::fs::write(format!("{outdir}/lines.txt"), lines).unwrap();
    let mut defs = String::new();
    for (gid, (g, i)) in flat.iter().enumerate() {
        writeln!(defs, "{gid}\t{g}\t{}\t{}", gs[*g].specs[*i].family, gs[*g].specs[*i].describe()).unwrap();
    }
    std::fs::write(format!("{outdir}/defs.tsv"), defs).unwrap();
    println!("{} {} {}", flat.len(), nbins, prefix);
}

fn write_if_changed(path: &str, content: &str) {
    if std::fs::read_to_string(path).ok().as_deref() != Some(content) {
        std::fs::write(path, content).unwrap();
    }
}
