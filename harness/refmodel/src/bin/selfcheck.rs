//! Oracle for the oracle: the derivative matcher of the reference model against a naive
//! backtracking matcher written directly from the operator meanings, on every regex of a small
//! family x every string up to a length (with and without end-of-input).
use refmodel::deriv::{deriv_match, naive_match};
use refmodel::enumerate::*;
use refmodel::re::*;
use refmodel::serde_json::json;

fn main() {
    let a: Vec<String> = std::env::args().collect();
    let k: usize = a.get(1).and_then(|s| s.parse().ok()).unwrap_or(3);
    let l: usize = a.get(2).and_then(|s| s.parse().ok()).unwrap_or(5);
    let mut atoms = atoms12();
    atoms.push(builtin("ascii_lowercase"));
    atoms.push(diff(builtin("ascii_alphanumeric"), set(&[('b', 'c')])));
    let mut res = re_upto(k, &atoms);
    let base: Vec<Re> = res.iter().take(200).cloned().collect();
    for r in &base {
        res.push(cat(r.clone(), Re::Eoi));
        res.push(alt(Re::Eoi, r.clone()));
    }
    res.push(Re::Eoi);
    let mut env = Env::new();
    env.insert("v".into(), alt(ch('a'), st("bc")));
    res.push(cat(var("v"), star(var("v"))));
    res.push(plus(var("v")));
    let inputs = inputs(l, &['a', 'b', 'c', 'x']);
    let t0 = std::time::Instant::now();
    let next = std::sync::atomic::AtomicUsize::new(0);
    let bad = std::sync::Mutex::new(Vec::new());
    let count = std::sync::atomic::AtomicU64::new(0);
    let accepted = std::sync::atomic::AtomicU64::new(0);
    std::thread::scope(|s| {
        for _ in 0..16 {
            s.spawn(|| loop {
                let i = next.fetch_add(1, std::sync::atomic::Ordering::SeqCst);
                if i >= res.len() {
                    break;
                }
                let r = &res[i];
                for inp in &inputs {
                    let cs: Vec<char> = inp.chars().collect();
                    for eoi in [false, true] {
                        let (d, n) = (deriv_match(r, &env, &cs, eoi), naive_match(r, &env, &cs, eoi));
                        count.fetch_add(1, std::sync::atomic::Ordering::Relaxed);
                        if d {
                            accepted.fetch_add(1, std::sync::atomic::Ordering::Relaxed);
                        }
                        if d != n {
                            let mut b = bad.lock().unwrap();
                            if b.len() < 5 {
                                b.push(format!("{} on {:?} eoi={}: derivatives {}, naive {}", print_min(r), inp, eoi, d, n));
                            }
                        }
                    }
                }
            });
        }
    });
    let bad = bad.into_inner().unwrap();
    println!(
        "{}",
        json!({"regexes": res.len(), "inputs": inputs.len(), "comparisons": count.into_inner(), "accepted": accepted.into_inner(), "disagreements": bad, "wall_s": t0.elapsed().as_secs_f64()})
    );
    if !bad.is_empty() {
        std::process::exit(1);
    }
}
