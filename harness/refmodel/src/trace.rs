//! Observation types shared by the reference lexer, the abstract machine and the glue that drives
//! real generated lexers, plus the glue itself (`glue!`).

use std::rc::Rc;
use unicode_width::UnicodeWidthChar;

#[derive(Clone, Copy, Debug, Default, PartialEq, Eq, Hash, PartialOrd, Ord)]
pub struct Loc {
    pub line: u32,
    pub col: u32,
    pub byte_idx: usize,
}

/// Location of the `char_idx`-th character, always recomputed by scanning from the beginning:
/// newline starts a line, tab counts 4 columns, other characters their display width
/// (`unicode-width`, defaulting to 1 for control characters).
pub fn loc_at(input: &[char], char_idx: usize) -> Loc {
    let mut l = Loc::default();
    for &c in &input[..char_idx] {
        l.byte_idx += c.len_utf8();
        if c == '\n' {
            l.line += 1;
            l.col = 0;
        } else if c == '\t' {
            l.col += 4;
        } else {
            l.col += UnicodeWidthChar::width(c).unwrap_or(1) as u32;
        }
    }
    l
}

/// One semantic-action invocation as seen from inside the action.
#[derive(Clone, Debug, PartialEq, Eq, Hash)]
pub struct Ev {
    pub rule: usize,
    pub start: Loc,
    pub end: Loc,
    pub text: Option<String>,
    pub peek: Option<char>,
}

#[derive(Clone, Debug, PartialEq, Eq, Hash)]
pub enum Item {
    None,
    Tok(Loc, usize, Loc),
    Invalid(Loc),
    Custom(u32, Loc),
    /// The call panicked (message).
    Panic(String),
}

/// One `next()` call: the actions that ran, the item returned, and the probe taken right after.
#[derive(Clone, Debug, PartialEq, Eq, Hash)]
pub struct Step {
    pub events: Vec<Ev>,
    pub item: Item,
    /// `(match_loc().0, match_loc().1, peek())` right after the call; `None` when not probed.
    pub probe: Option<(Loc, Loc, Option<char>)>,
}

pub type Trace = Vec<Step>;

/// User state shared by all harness lexers.
#[derive(Clone, Debug, Default)]
pub struct H {
    pub log: Vec<Ev>,
    pub script: Vec<u8>,
    pub cur: usize,
    pub has_str: bool,
    /// more action invocations than this in one execution is a runaway lexer: the action panics
    /// (which the driver records) instead of looping until memory runs out; 0 = no limit
    pub limit: usize,
}

impl H {
    pub fn new(script: &[u8], has_str: bool) -> H {
        H { log: vec![], script: script.to_vec(), cur: 0, has_str, limit: 0 }
    }
    pub fn decide(&mut self, rule: usize, default: u8, start: Loc, end: Loc, text: Option<String>, peek: Option<char>) -> u8 {
        if self.limit != 0 && self.log.len() >= self.limit {
            panic!("runaway lexer: more than {} action invocations on this input", self.limit);
        }
        self.log.push(Ev { rule, start, end, text, peek });
        let d = self.script.get(self.cur).copied().unwrap_or(255);
        self.cur += 1;
        if d == 255 {
            default
        } else {
            d
        }
    }
}

/// A hand-written cloneable character iterator (not `std::str::Chars`).
#[derive(Clone)]
pub struct VecIter {
    data: Rc<Vec<char>>,
    pos: usize,
}
impl VecIter {
    pub fn new(s: &str) -> VecIter {
        VecIter { data: Rc::new(s.chars().collect()), pos: 0 }
    }
}
impl Iterator for VecIter {
    type Item = char;
    fn next(&mut self) -> Option<char> {
        let c = self.data.get(self.pos).copied();
        if c.is_some() {
            self.pos += 1;
        }
        c
    }
}

/// A cloneable, deliberately *non-fused* iterator: the input arrives in two pieces, with one
/// `None` between them (and `None` at the very end).
#[derive(Clone)]
pub struct PiecesIter {
    data: Rc<Vec<char>>,
    pos: usize,
    split: usize,
    gap_reported: bool,
}
impl PiecesIter {
    pub fn new(s: &str, split: usize) -> PiecesIter {
        PiecesIter { data: Rc::new(s.chars().collect()), pos: 0, split, gap_reported: false }
    }
}
impl Iterator for PiecesIter {
    type Item = char;
    fn next(&mut self) -> Option<char> {
        if self.pos == self.split && !self.gap_reported {
            self.gap_reported = true;
            return None;
        }
        let c = self.data.get(self.pos).copied();
        if c.is_some() {
            self.pos += 1;
        }
        c
    }
}

pub trait CustomCode {
    fn code(self) -> u32;
}
impl CustomCode for u32 {
    fn code(self) -> u32 {
        self
    }
}
impl CustomCode for std::convert::Infallible {
    fn code(self) -> u32 {
        match self {}
    }
}

/// What the generic driver needs from a generated lexer. Implemented by `glue!` inside the
/// module of the `lexer!` expansion, so the (private) handle methods are reachable.
pub trait Handle: Clone {
    fn h_match_loc(&self) -> (Loc, Loc);
    fn h_match(&self) -> String;
    fn h_peek(&mut self) -> Option<char>;
    fn h_state(&mut self) -> &mut H;
    fn h_next(&mut self) -> Item;
}

pub fn decide<L: Handle>(l: &mut L, rule: usize, default: u8) -> u8 {
    let (s, e) = l.h_match_loc();
    let pk = l.h_peek();
    let m = if l.h_state().has_str { Some(l.h_match()) } else { None };
    l.h_state().decide(rule, default, s, e, m, pk)
}

pub fn budget_for(input: &str) -> usize {
    4 * (input.chars().count() + 2) + 4
}

/// One `next()` call with logging of action events, optional probe, and panic capture.
pub fn step<L: Handle>(l: &mut L, probes: bool) -> Step {
    let before = l.h_state().log.len();
    let r = std::panic::catch_unwind(std::panic::AssertUnwindSafe(|| l.h_next()));
    let item = match r {
        Ok(it) => it,
        Err(e) => {
            let msg = e.downcast_ref::<String>().cloned().or_else(|| e.downcast_ref::<&str>().map(|s| s.to_string())).unwrap_or_default();
            Item::Panic(msg)
        }
    };
    let events = l.h_state().log.get(before..).map(|s| s.to_vec()).unwrap_or_default();
    let mut item = item;
    let probe = if probes && !matches!(item, Item::Panic(_)) {
        // the probe uses the handle methods `match_loc()` and `peek()`: a panic in them is a panic of the lexer
        match std::panic::catch_unwind(std::panic::AssertUnwindSafe(|| {
            let (ps, pe) = l.h_match_loc();
            (ps, pe, l.h_peek())
        })) {
            Ok(p) => Some(p),
            Err(e) => {
                let msg = e.downcast_ref::<String>().cloned().or_else(|| e.downcast_ref::<&str>().map(|s| s.to_string())).unwrap_or_default();
                item = Item::Panic(format!("in peek()/match_loc() after the call: {msg}"));
                None
            }
        }
    } else {
        None
    };
    Step { events, item, probe }
}

/// Call `next()` until `nones` `None`s have been seen (or the budget is exhausted, or a panic).
pub fn drive<L: Handle>(l: &mut L, budget: usize, probes: bool, nones: usize) -> Trace {
    let mut out = vec![];
    let mut seen = 0;
    for _ in 0..budget {
        let st = step(l, probes);
        let stop = matches!(st.item, Item::Panic(_));
        if st.item == Item::None {
            seen += 1;
        }
        out.push(st);
        if stop || seen >= nones {
            break;
        }
    }
    out
}

/// Clone experiment: run `k` calls on the original, clone it, then perform the remaining calls in
/// the order given by `pattern` (false = original, true = clone), then run both to completion
/// (original first). Returns (prefix, rest of original, rest of clone).
pub fn drive_clone<L: Handle>(l: &mut L, budget: usize, k: usize, pattern: &[bool]) -> (Trace, Trace, Trace) {
    let mut prefix = vec![];
    for _ in 0..k {
        prefix.push(step(l, true));
    }
    let mut c = l.clone();
    let (mut a, mut b) = (vec![], vec![]);
    let done = |t: &Trace| -> bool {
        t.len() >= budget || t.iter().filter(|s| s.item == Item::None).count() >= 2 || t.iter().any(|s| matches!(s.item, Item::Panic(_)))
    };
    for &which in pattern {
        if which {
            if !done(&b) {
                b.push(step(&mut c, true));
            }
        } else if !done(&a) {
            a.push(step(l, true));
        }
    }
    while !done(&a) {
        a.push(step(l, true));
    }
    while !done(&b) {
        b.push(step(&mut c, true));
    }
    (prefix, a, b)
}

pub const CTOR_NEW_WITH_STATE: u8 = 0;
pub const CTOR_FROM_ITER_WITH_STATE: u8 = 1;
pub const CTOR_NEW: u8 = 2;
pub const CTOR_FROM_ITER: u8 = 3;
pub const CTOR_FROM_CHARS_ITER: u8 = 4;
/// `new_from_iter_with_state` over a non-fused iterator that reports end of input after `split`
/// characters and then goes on
pub const CTOR_PIECES: u8 = 5;

/// How to run one lexer: everything the explorer varies.
#[derive(Clone, Debug, Default)]
pub struct RunArgs<'a> {
    pub input: &'a str,
    pub script: &'a [u8],
    pub ctor: u8,
    pub probes: bool,
    pub nones: usize,
    /// do not record `match_()` text in action events (long inputs: the log would be quadratic)
    pub no_text: bool,
    /// CTOR_PIECES: number of characters before the iterator's first `None`
    pub split: usize,
}

pub enum Mode<'a> {
    Plain,
    /// clone after `k` calls, then interleave according to the pattern
    Clone(usize, &'a [bool]),
}

/// (trace or prefix, rest of original, rest of clone)
pub type Out = (Trace, Trace, Trace);

pub type Runner = fn(&RunArgs, &Mode) -> Out;

pub fn run_any<L: Handle>(mut l: L, a: &RunArgs, mode: &Mode) -> Out {
    let budget = budget_for(a.input);
    l.h_state().limit = 3 * budget + 16;
    match mode {
        Mode::Plain => (drive(&mut l, budget, a.probes, a.nones), vec![], vec![]),
        Mode::Clone(k, pattern) => drive_clone(&mut l, budget, *k, pattern),
    }
}

#[macro_export]
macro_rules! glue {
    (@common $L:ident) => {
        fn cv(l: ::lexgen_util::Loc) -> $crate::trace::Loc {
            $crate::trace::Loc { line: l.line, col: l.col, byte_idx: l.byte_idx }
        }
        impl<'input, I: Iterator<Item = char> + Clone> $crate::trace::Handle for $L<'input, I> {
            fn h_match_loc(&self) -> ($crate::trace::Loc, $crate::trace::Loc) {
                let (s, e) = self.match_loc();
                (cv(s), cv(e))
            }
            fn h_match(&self) -> String {
                self.match_().to_string()
            }
            fn h_peek(&mut self) -> Option<char> {
                self.peek()
            }
            fn h_state(&mut self) -> &mut $crate::trace::H {
                self.state()
            }
            fn h_next(&mut self) -> $crate::trace::Item {
                use $crate::trace::Item;
                match self.next() {
                    None => Item::None,
                    Some(Ok((s, t, e))) => Item::Tok(cv(s), t, cv(e)),
                    Some(Err(e)) => match e.kind {
                        ::lexgen_util::LexerErrorKind::InvalidToken => Item::Invalid(cv(e.location)),
                        ::lexgen_util::LexerErrorKind::Custom(c) => Item::Custom($crate::trace::CustomCode::code(c), cv(e.location)),
                    },
                }
            }
        }
        pub fn run(a: &$crate::trace::RunArgs, mode: &$crate::trace::Mode) -> $crate::trace::Out {
            use $crate::trace::*;
            match a.ctor {
                CTOR_NEW_WITH_STATE => run_any($L::new_with_state(a.input, H::new(a.script, !a.no_text)), a, mode),
                CTOR_FROM_ITER_WITH_STATE => run_any($L::new_from_iter_with_state(VecIter::new(a.input), H::new(a.script, false)), a, mode),
                CTOR_NEW => {
                    let mut l = $L::new(a.input);
                    *l.state() = H::new(a.script, !a.no_text);
                    run_any(l, a, mode)
                }
                CTOR_FROM_ITER => {
                    let mut l = $L::new_from_iter(VecIter::new(a.input));
                    *l.state() = H::new(a.script, false);
                    run_any(l, a, mode)
                }
                CTOR_PIECES => run_any($L::new_from_iter_with_state(PiecesIter::new(a.input, a.split), H::new(a.script, false)), a, mode),
                _ => run_any($L::new_from_iter_with_state(a.input.chars(), H::new(a.script, false)), a, mode),
            }
        }
    };
    (plain, $L:ident, $R:ident, [$($set:ident),*]) => {
        $crate::glue!(@common $L);
        fn act<'input, I: Iterator<Item = char> + Clone>(l: &mut $L<'input, I>, rule: usize, default: u8) -> ::lexgen_util::SemanticActionResult<usize> {
            match $crate::trace::decide(l, rule, default) {
                1 => l.continue_(),
                2 => { l.reset_match(); l.continue_() }
                251 => { l.reset_match(); l.return_(rule) }
                _ => l.return_(rule),
            }
        }
    };
    (plain_fallible, $L:ident, $R:ident, [$($set:ident),*]) => {
        $crate::glue!(plain, $L, $R, [$($set),*]);
        fn act_f<'input, I: Iterator<Item = char> + Clone>(l: &mut $L<'input, I>, rule: usize, default: u8) -> ::lexgen_util::SemanticActionResult<Result<usize, u32>> {
            match $crate::trace::decide(l, rule, default) {
                1 => l.continue_(),
                2 => { l.reset_match(); l.continue_() }
                250 => l.return_(Err(1000 + rule as u32)),
                251 => { l.reset_match(); l.return_(Ok(rule)) }
                _ => l.return_(Ok(rule)),
            }
        }
    };
    (named, $L:ident, $R:ident, [$($set:ident),*]) => {
        $crate::glue!(@common $L);
        fn rs(k: u8) -> $R {
            let v = [$($R::$set),*];
            if (k as usize) < v.len() { v[k as usize] } else { v[0] }
        }
        fn act<'input, I: Iterator<Item = char> + Clone>(l: &mut $L<'input, I>, rule: usize, default: u8) -> ::lexgen_util::SemanticActionResult<usize> {
            match $crate::trace::decide(l, rule, default) {
                1 => l.continue_(),
                2 => { l.reset_match(); l.continue_() }
                251 => { l.reset_match(); l.return_(rule) }
                d if d >= 3 && d < 200 && d % 2 == 1 => l.switch(rs((d - 3) / 2)),
                d if d >= 4 && d < 200 => l.switch_and_return(rs((d - 4) / 2), rule),
                _ => l.return_(rule),
            }
        }
    };
    (named_fallible, $L:ident, $R:ident, [$($set:ident),*]) => {
        $crate::glue!(named, $L, $R, [$($set),*]);
        fn act_f<'input, I: Iterator<Item = char> + Clone>(l: &mut $L<'input, I>, rule: usize, default: u8) -> ::lexgen_util::SemanticActionResult<Result<usize, u32>> {
            match $crate::trace::decide(l, rule, default) {
                1 => l.continue_(),
                2 => { l.reset_match(); l.continue_() }
                250 => l.return_(Err(1000 + rule as u32)),
                251 => { l.reset_match(); l.return_(Ok(rule)) }
                d if d >= 3 && d < 200 && d % 2 == 1 => l.switch(rs((d - 3) / 2)),
                d if d >= 4 && d < 200 => l.switch_and_return(rs((d - 4) / 2), Ok(rule)),
                d if d >= 200 && d < 240 => l.switch_and_return(rs(d - 200), Err(1000 + rule as u32)),
                _ => l.return_(Ok(rule)),
            }
        }
    };
}
