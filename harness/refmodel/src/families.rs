//! Definition families and exploration plans per property and tier (DESIGN.md §3, §4).
//! Everything here is deterministic: the generator and the batch binaries call the same functions
//! and must see the same lists.

use crate::e2e::{Plan, Proj};
use crate::enumerate::*;
use crate::re::*;
use crate::spec::*;
use crate::trace::*;

pub const ABCX: [char; 4] = ['a', 'b', 'c', 'x'];
/// β1: newline, a wide 3-byte character, a zero-width combining mark, tab
pub const BETA1: [char; 4] = ['\n', '中', '\u{301}', '\t'];
/// β2: 2-byte, 4-byte wide, zero-width 3-byte, control
pub const BETA2: [char; 4] = ['§', '😀', '\u{200B}', '\u{7}'];
/// Line ends: `"\r\n"` sequences, a lone `'\r'`, and a zero-width joiner between ordinary letters
pub const BETA3: [char; 4] = ['\r', '\n', '\u{200C}', 'z'];

pub fn bind(r: &Re, beta: &[char; 4]) -> Re {
    let b = *beta;
    r.map_chars(&move |c| match c {
        'a' => b[0],
        'b' => b[1],
        'c' => b[2],
        'x' => b[3],
        o => o,
    })
}

pub struct Group {
    pub plan: Plan,
    pub specs: Vec<Spec>,
}

fn plan(prop: &'static str, proj: Proj, max_len: usize, max_dev: usize) -> Plan {
    Plan {
        prop,
        proj,
        alphabet: ABCX.to_vec(),
        max_len,
        extra_inputs: vec![],
        max_dev,
        dev_positions: 3,
        ctors: vec![CTOR_NEW_WITH_STATE],
        check_probe_neutral: true,
        sweep_all: false,
        pieces: false,
        clone_depth: 3,
    }
}

/// 14 rule shapes that overlap, rewind and use all three transition kinds (validated in round 0).
pub fn menu14() -> Vec<Re> {
    vec![
        ch('a'),
        ch('b'),
        st("ab"),
        st("ba"),
        plus(ch('a')),
        cat(plus(ch('a')), ch('b')),
        set(&[('a', 'b')]),
        set(&[('a', 'a'), ('c', 'c')]),
        Re::Any,
        cat(set(&[('a', 'b')]), st("ab")),
        cat(star(ch('a')), st("bc")),
        plus(cat(Re::Any, ch('b'))),
        cat(ch('a'), opt(st("bc"))),
        alt(st("abc"), ch('c')),
    ]
}

fn ret(re: Re) -> Rule {
    rule(re, Kind::Act(D_RETURN))
}

/// Concrete definitions quoted in properties.jsonl (and found by earlier exploration).
pub fn regress_single() -> Vec<Spec> {
    let mut v = vec![];
    // C01: [b-c]"bab"([c-e]|"ab"), 'b', 'a', "cbaa"[b-c]  on "bbabx"
    v.push(Spec::single(
        vec![
            ret(cat(cat(set(&[('b', 'c')]), st("bab")), alt(set(&[('c', 'e')]), st("ab")))),
            ret(ch('b')),
            ret(ch('a')),
            ret(cat(st("cbaa"), set(&[('b', 'c')]))),
        ],
        "regress",
    ));
    // C12 (hang on the pinned tree): 'c', ['a'-'d']"cc", ['a'-'d']+"ba", 'c', 'b'
    v.push(Spec::single(
        vec![ret(ch('c')), ret(cat(set(&[('a', 'd')]), st("cc"))), ret(cat(plus(set(&[('a', 'd')])), st("ba"))), ret(ch('c')), ret(ch('b'))],
        "regress",
    ));
    // round-0 findings: single-rule lexers that mis-rewind or hang on the pinned tree
    v.push(Spec::single(vec![ret(plus(cat(set(&[('a', 'a'), ('c', 'c')]), set(&[('a', 'a'), ('c', 'c')]))))], "regress"));
    v.push(Spec::single(vec![ret(cat(star(set(&[('a', 'a'), ('c', 'c')])), set(&[('b', 'c')])))], "regress"));
    v.push(Spec::single(vec![ret(cat(set(&[('a', 'b')]), st("ab"))), ret(set(&[('b', 'c')]))], "regress"));
    // issue 16 style: a long keyword against an identifier-like rule
    v.push(Spec::single(vec![ret(st("abcab")), ret(plus(set(&[('a', 'c')]))), ret(ch('x'))], "regress"));
    v.push(Spec::single(vec![ret(cat(st("ab"), plus(st("cab")))), ret(st("ab")), ret(ch('c')), ret(ch('a'))], "regress"));
    v
}

pub fn pair_family() -> Vec<Spec> {
    let m = menu14();
    let mut out = vec![];
    for x in &m {
        for y in &m {
            out.push(Spec::single(vec![ret(x.clone()), ret(y.clone())], "pair"));
        }
    }
    out
}

/// PAIR(k, atoms) in enumeration order, every `stride`-th definition starting at `offset`.
pub fn pair_enum(k: usize, atoms: &[Re], stride: usize, offset: usize, limit: usize) -> Vec<Spec> {
    let rs = re_plus(k, atoms);
    let mut out = vec![];
    let n = rs.len();
    let mut i = offset;
    while i < n * n && out.len() < limit {
        out.push(Spec::single(vec![ret(rs[i / n].clone()), ret(rs[i % n].clone())], "pair_enum"));
        i += stride;
    }
    out
}

pub fn single_enum(k: usize, atoms: &[Re], stride: usize, limit: usize) -> Vec<Spec> {
    re_plus(k, atoms).into_iter().step_by(stride).take(limit).map(|r| Spec::single(vec![ret(r)], "single_enum")).collect()
}

pub fn triple_enum(k: usize, atoms: &[Re], stride: usize, limit: usize) -> Vec<Spec> {
    let rs = re_plus(k, atoms);
    let n = rs.len();
    let mut out = vec![];
    let mut i = 0;
    while i < n * n * n && out.len() < limit {
        out.push(Spec::single(vec![ret(rs[i / (n * n)].clone()), ret(rs[(i / n) % n].clone()), ret(rs[i % n].clone())], "triple_enum"));
        i += stride;
    }
    out
}

const KINDS7: [Kind; 7] =
    [Kind::Skip, Kind::Simple, Kind::Act(D_RETURN), Kind::Act(D_CONTINUE), Kind::Act(D_RESET_CONTINUE), Kind::Fallible(D_RETURN), Kind::Fallible(D_ERR)];

pub fn kinds_family(full: bool) -> Vec<Spec> {
    let join = cat(cat(alt(ch('a'), ch('b')), star(ch('c'))), ch('b'));
    let triples = [[cat(plus(ch('a')), ch('b')), ch('a'), Re::Any], [st("abab"), st("ab"), ch('c')], [ch('a'), join, ch('c')]];
    let mut out = vec![];
    for (ti, t) in triples.iter().enumerate() {
        for k0 in KINDS7 {
            for k1 in KINDS7 {
                for k2 in [Kind::Act(D_RETURN), Kind::Skip, Kind::Act(D_CONTINUE)] {
                    if (!full && ti == 1 || ti == 2) && !matches!(k2, Kind::Act(D_RETURN)) {
                        continue;
                    }
                    out.push(Spec::single(vec![rule(t[0].clone(), k0), rule(t[1].clone(), k1), rule(t[2].clone(), k2)], "kinds"));
                }
            }
        }
    }
    out
}

/// Sugar forms against their explicit expansions: same regexes, `re,` vs `=> reset+continue`,
/// `re = t` vs `=> return`.
pub fn sugar_pairs() -> Vec<(Spec, Spec)> {
    let bases = [[cat(plus(ch('a')), ch('b')), ch('a'), Re::Any], [st("abab"), st("ab"), ch('c')], [plus(cat(Re::Any, ch('b'))), st("ab"), ch('a')]];
    let mut out = vec![];
    for t in &bases {
        for which in 0..3 {
            for (sugar, explicit) in [(Kind::Skip, Kind::Act(D_RESET_CONTINUE)), (Kind::Simple, Kind::Act(D_RETURN))] {
                let mk = |k: Kind| Spec::single((0..3).map(|i| rule(t[i].clone(), if i == which { k } else { Kind::Act(D_RETURN) })).collect(), "sugar");
                out.push((mk(sugar), mk(explicit)));
            }
        }
    }
    out
}

fn set_shapes() -> Vec<Vec<Re>> {
    vec![
        vec![],
        vec![ch('a')],
        vec![st("ab"), ch('a')],
        // a join state flagged for backtracking that is also reachable with nothing recorded
        // ("bc…": fails through `backtrack()` with no saved match)
        vec![ch('a'), cat(cat(alt(ch('a'), ch('b')), star(ch('c'))), ch('b'))],
        // range, `_`, `$` and character transitions in one rule set (every kind of transition is
        // renumbered separately when rule sets are concatenated)
        vec![cat(set(&[('a', 'b')]), ch('c')), cat(Re::Any, ch('b')), cat(ch('c'), Re::Eoi), plus(ch('a'))],
        // accepting only under a right context, with outgoing transitions
        vec![Re::Any, ch('c')],
        vec![cat(plus(ch('a')), ch('b')), ch('a'), ch('c')],
        vec![alt(st("ab"), st("ac")), cat(ch('a'), star(ch('b'))), ch('c')],
        vec![cat(ch('b'), opt(st("ab"))), st("ba")],
        vec![cat(st("ab"), Re::Eoi), ch('a'), ch('b')],
        vec![cat(cat(ch('a'), star(Re::Any)), ch('b')), ch('c'), ch('b')],
    ]
}

/// RSETS: rule-set topologies. Rule 0 of each set switches-and-returns to the next set, rule 1
/// switches silently, the rest return.
pub fn sets_family(n_shapes: usize, third: &[usize], with_orders: bool) -> Vec<Spec> {
    let shapes = set_shapes();
    let mk = |sh: &Vec<Re>, to: usize| -> Vec<Rule> {
        let mut v: Vec<Rule> = sh
            .iter()
            .enumerate()
            .map(|(i, r)| rule(r.clone(), if i == 0 { Kind::Act(d_switch_return(to)) } else if i == 1 { Kind::Act(d_switch(to)) } else { Kind::Act(D_RETURN) }))
            .collect();
        // the `_ , 'c'` shape: `'a'+ > 'b'` in front (an accept that holds only under its context)
        if sh.len() == 2 && sh[0] == Re::Any {
            v[0] = Rule { re: plus(ch('a')), ctx: Some(ch('b')), kind: Kind::Act(d_switch_return(to)) };
        }
        v
    };
    let mut out = vec![];
    for s0 in 1..n_shapes.min(shapes.len()) {
        for s1 in 0..n_shapes.min(shapes.len()) {
            // two rule sets
            out.push(Spec::multi(vec![mk(&shapes[s0], 1), mk(&shapes[s1], 0)], "sets"));
            for &s2 in third {
                let mut sp = Spec::multi(vec![mk(&shapes[s0], 1), mk(&shapes[s1], 2), mk(&shapes[s2], 0)], "sets");
                out.push(sp.clone());
                if with_orders {
                    sp.decl_order = vec![2, 1];
                    out.push(sp);
                }
            }
        }
    }
    // one named rule set only, and four rule sets
    out.push(Spec { named: true, ..Spec::single(mk(&shapes[6], 0), "sets") });
    out.push(Spec::multi(vec![mk(&shapes[2], 3), mk(&shapes[0], 0), mk(&shapes[7], 1), mk(&shapes[3], 2)], "sets"));
    let mut sp = Spec::multi(vec![mk(&shapes[4], 2), mk(&shapes[8], 3), mk(&shapes[1], 1), mk(&shapes[6], 0)], "sets");
    sp.decl_order = vec![3, 1, 2];
    out.push(sp);
    out
}

pub fn eoi_family() -> Vec<Spec> {
    let eoi_rules = [Re::Eoi, cat(ch('a'), Re::Eoi), cat(plus(ch('a')), Re::Eoi), cat(st("ab"), Re::Eoi), cat(plus(ch('a')), opt(Re::Eoi))];
    let mut out = vec![];
    for e0 in &eoi_rules {
        for e1 in &eoi_rules {
            for k in [Kind::Act(D_RETURN), Kind::Act(D_CONTINUE), Kind::Skip] {
                out.push(Spec::multi(
                    vec![
                        vec![rule(e0.clone(), k), ret(ch('a')), rule(ch('b'), Kind::Act(d_switch_return(1)))],
                        vec![rule(e1.clone(), k), ret(cat(plus(ch('a')), ch('b'))), rule(ch('a'), Kind::Act(d_switch_return(0)))],
                    ],
                    "eoi",
                ));
            }
        }
    }
    // single rule set: rewinds ending exactly at / one before / one after the end of input
    let tails = [
        vec![cat(st("ab"), Re::Eoi), st("ab"), ch('a'), ch('b')],
        vec![cat(plus(ch('a')), Re::Eoi), cat(plus(ch('a')), ch('b')), ch('a')],
        vec![cat(cat(ch('a'), opt(ch('b'))), Re::Eoi), st("abc"), ch('a'), ch('b'), ch('c')],
        vec![st("abc"), ch('a'), ch('b')],
        vec![cat(ch('a'), alt(Re::Eoi, ch('b'))), ch('a'), ch('c')],
        vec![alt(cat(st("ab"), Re::Eoi), st("abc")), ch('a'), ch('b')],
        vec![Re::Eoi, cat(plus(ch('a')), st("bc")), ch('a'), ch('b')],
        vec![cat(star(ch('a')), Re::Eoi), plus(ch('a')), ch('b')],
        // input can end inside a lexeme in a state that is flagged for backtracking but was
        // reached with nothing recorded, while `Init` has a `$` rule
        vec![Re::Eoi, ch('a'), cat(cat(alt(ch('a'), ch('b')), star(ch('c'))), ch('b'))],
        // optional `$`: the match through `$` is still preferred to the same lexeme without it
        vec![cat(plus(ch('a')), opt(Re::Eoi)), plus(ch('a')), ch('b')],
        vec![plus(ch('a')), cat(plus(ch('a')), opt(Re::Eoi)), ch('b')],
        vec![Re::Eoi, cat(plus(ch('a')), opt(Re::Eoi)), ch('b')],
        vec![cat(st("ab"), opt(Re::Eoi)), cat(ch('a'), opt(cat(ch('b'), Re::Eoi))), ch('b')],
        vec![cat(ch('a'), Re::Eoi), ch('a'), cat(alt(ch('a'), ch('b')), st("cb"))],
    ];
    for t in &tails {
        for k in [Kind::Act(D_RETURN), Kind::Act(D_CONTINUE), Kind::Fallible(D_RETURN)] {
            out.push(Spec::single(t.iter().enumerate().map(|(i, r)| rule(r.clone(), if i == 0 { k } else { Kind::Act(D_RETURN) })).collect(), "eoi1"));
        }
    }
    // an accept that holds only under its right context, input ending right after it, `$` rule in Init
    for k in [Kind::Act(D_RETURN), Kind::Act(D_CONTINUE)] {
        out.push(Spec::single(vec![rule(Re::Eoi, k), Rule { re: plus(ch('a')), ctx: Some(ch('b')), kind: Kind::Act(D_RETURN) }, ret(ch('c'))], "eoi1"));
        out.push(Spec::multi(
            vec![
                vec![rule(Re::Eoi, k), rule(ch('b'), Kind::Act(d_switch_return(1))), ret(ch('a'))],
                vec![ret(ch('a')), ret(cat(cat(alt(ch('a'), ch('b')), star(ch('c'))), ch('b')))],
            ],
            "eoi",
        ));
        out.push(Spec::multi(vec![vec![rule(Re::Eoi, k), rule(ch('b'), Kind::Act(d_switch_return(1)))], vec![ret(st("ab")), ret(ch('c'))]], "eoi"));
    }
    out
}

pub fn ctx_family(full: bool) -> Vec<Spec> {
    let mut out = vec![];
    // single-symbol contexts
    let ctxs = [ch('a'), set(&[('a', 'b')]), Re::Any, Re::Eoi, alt(Re::Eoi, ch('b')), opt(ch('a'))];
    for c0 in &ctxs {
        for c1 in &ctxs {
            out.push(Spec::single(
                vec![
                    Rule { re: plus(ch('a')), ctx: Some(c0.clone()), kind: Kind::Act(D_RETURN) },
                    Rule { re: ch('a'), ctx: Some(c1.clone()), kind: Kind::Act(D_RETURN) },
                    ret(st("ab")),
                    Rule { re: ch('b'), ctx: Some(c0.clone()), kind: Kind::Act(D_RETURN) },
                ],
                "ctx",
            ));
        }
    }
    // multi-character / repeating / nullable contexts
    let ctxs2 = [
        st("bc"),
        cat(plus(ch('b')), ch('c')),
        cat(ch('b'), Re::Eoi),
        cat(star(ch('a')), ch('b')),
        alt(st("ab"), cat(ch('c'), Re::Eoi)),
        cat(Re::Any, ch('a')),
        cat(set(&[('a', 'b')]), set(&[('b', 'c')])),
        // a character with its own (accepting) transition inside a range / `_` that goes elsewhere
        alt(ch('a'), cat(set(&[('a', 'c')]), ch('b'))),
        alt(ch('b'), cat(Re::Any, ch('a'))),
        alt(set(&[('a', 'b')]), cat(Re::Any, ch('c'))),
    ];
    for c0 in &ctxs2 {
        for c1 in &ctxs2 {
            out.push(Spec::single(
                vec![
                    Rule { re: plus(ch('a')), ctx: Some(c0.clone()), kind: Kind::Act(D_RETURN) },
                    Rule { re: ch('a'), ctx: Some(c1.clone()), kind: Kind::Act(D_RETURN) },
                    Rule { re: cat(ch('a'), ch('b')), ctx: Some(c1.clone()), kind: Kind::Act(D_RETURN) },
                    rule(set(&[('a', 'c')]), Kind::Act(D_CONTINUE)),
                ],
                "ctx2",
            ));
        }
    }
    // CTX(r, c): every context of REctx(2, A6) behind three rule shapes, with a context-free
    // fallback rule after / before it
    let cs = re_ctx(2, &atoms6());
    let rs = [ch('a'), plus(ch('a')), st("ab")];
    for (ci, c) in cs.iter().enumerate() {
        for (ri, r) in rs.iter().enumerate() {
            if !full && (ci + ri) % 3 != 0 {
                continue;
            }
            let guarded = Rule { re: r.clone(), ctx: Some(c.clone()), kind: Kind::Act(D_RETURN) };
            let rules = if (ci + ri) % 2 == 0 { vec![guarded, ret(set(&[('a', 'c')]))] } else { vec![ret(st("abc")), guarded, ret(set(&[('a', 'c')]))] };
            out.push(Spec::single(rules, "ctx_enum"));
        }
    }
    // contexts that end in a parenthesised / let-bound concatenation with nullable parts inside, and
    // contexts in which `$` is an alternative followed by nullable parts or sits under a repetition
    let nested = [
        cat(ch('b'), cat(star(ch('c')), ch('a'))),
        cat(ch('b'), cat(opt(ch('c')), ch('b'))),
        cat(ch('b'), cat(ch('c'), star(ch('a')))),
        cat(set(&[('a', 'b')]), cat(cat(star(ch('c')), ch('a')), opt(ch('b')))),
        cat(alt(ch('b'), Re::Eoi), star(ch('c'))),
        plus(alt(ch('b'), Re::Eoi)),
        cat(alt(Re::Eoi, ch('c')), opt(ch('b'))),
    ];
    for c in &nested {
        out.push(Spec::single(vec![Rule { re: ch('a'), ctx: Some(c.clone()), kind: Kind::Act(D_RETURN) }, ret(ch('a')), ret(set(&[('b', 'c')]))], "ctx_nested"));
        out.push(Spec::single(vec![ret(st("ab")), Rule { re: plus(ch('a')), ctx: Some(c.clone()), kind: Kind::Act(D_RETURN) }, ret(set(&[('a', 'c')]))], "ctx_nested"));
        let mut s = Spec::single(vec![Rule { re: ch('a'), ctx: Some(cat(ch('b'), Re::Var("t".into()))), kind: Kind::Act(D_RETURN) }, ret(ch('a')), ret(set(&[('b', 'c')]))], "ctx_nested");
        if !c.has_eoi() {
            s.lets = vec![("t".into(), c.clone())];
            out.push(s);
        }
    }
    // a rule ending in `_` under a context, declared before a rule ending in a character / range at
    // the same position (both ends are leaves)
    for c in [ch('c'), set(&[('b', 'c')]), Re::Eoi] {
        out.push(Spec::single(vec![Rule { re: cat(ch('b'), Re::Any), ctx: Some(c.clone()), kind: Kind::Act(D_RETURN) }, ret(st("ba")), ret(cat(ch('b'), set(&[('b', 'c')]))), ret(set(&[('a', 'c')]))], "ctx_any"));
        out.push(Spec::single(vec![ret(st("ba")), Rule { re: cat(ch('b'), Re::Any), ctx: Some(c.clone()), kind: Kind::Act(D_RETURN) }, ret(set(&[('a', 'c')]))], "ctx_any"));
    }
    // a longer rule that extends past a context-only accept through a state that can fail
    for c in [ch('b'), set(&[('b', 'c')]), Re::Any, st("bc"), alt(ch('b'), Re::Eoi)] {
        out.push(Spec::single(vec![Rule { re: ch('a'), ctx: Some(c.clone()), kind: Kind::Act(D_RETURN) }, ret(st("abc")), ret(ch('b')), ret(ch('c'))], "ctx_past"));
        out.push(Spec::single(vec![ret(st("abcb")), Rule { re: plus(ch('a')), ctx: Some(c.clone()), kind: Kind::Act(D_RETURN) }, ret(set(&[('b', 'c')]))], "ctx_past"));
    }
    // two rules sharing a lexeme with different contexts; context in a second rule set
    out.push(Spec::single(
        vec![
            Rule { re: st("ab"), ctx: Some(ch('c')), kind: Kind::Act(D_RETURN) },
            Rule { re: st("ab"), ctx: Some(ch('a')), kind: Kind::Act(D_RETURN) },
            Rule { re: st("ab"), ctx: Some(Re::Eoi), kind: Kind::Act(D_RETURN) },
            ret(set(&[('a', 'c')])),
        ],
        "ctx_shared",
    ));
    out.push(Spec::multi(
        vec![
            vec![rule(ch('b'), Kind::Act(d_switch_return(1))), Rule { re: ch('a'), ctx: Some(st("ab")), kind: Kind::Act(D_RETURN) }, ret(ch('c'))],
            vec![Rule { re: plus(ch('a')), ctx: Some(cat(ch('b'), plus(ch('c')))), kind: Kind::Act(d_switch_return(0)) }, ret(ch('a')), ret(ch('b'))],
        ],
        "ctx_sets",
    ));
    // a built-in class as context (binary-search table inside a context function)
    out.push(Spec::single(
        vec![Rule { re: plus(ch('a')), ctx: Some(builtin("alphabetic")), kind: Kind::Act(D_RETURN) }, ret(set(&[('a', 'c')])), ret(ch('x'))],
        "ctx_builtin",
    ));
    out.push(Spec::single(
        vec![Rule { re: ch('a'), ctx: Some(cat(builtin("alphabetic"), ch('x'))), kind: Kind::Act(D_RETURN) }, ret(set(&[('a', 'c')])), ret(ch('x'))],
        "ctx_builtin",
    ));
    out
}

pub fn wide_family(beta: &[char; 4], n: usize) -> Vec<Spec> {
    let m = menu14();
    let mut out = vec![];
    for x in m.iter().take(n) {
        for y in m.iter().take(n) {
            out.push(Spec::single(vec![ret(bind(x, beta)), rule(bind(y, beta), Kind::Act(D_CONTINUE))], "wide"));
        }
    }
    out
}

pub fn errors_family() -> Vec<Spec> {
    let m = menu14();
    let mut out = vec![];
    for (i, x) in m.iter().enumerate() {
        for (j, y) in m.iter().enumerate() {
            let k1 = match (i + j) % 3 {
                0 => Kind::Act(D_CONTINUE),
                1 => Kind::Fallible(D_ERR),
                _ => Kind::Fallible(D_RETURN),
            };
            out.push(Spec::single(vec![rule(x.clone(), Kind::Fallible(D_RETURN)), rule(y.clone(), k1)], "errors"));
        }
    }
    // the quoted case: `"ab" =? Err` after skipped blanks, on "c  abc"
    out.push(Spec::single(vec![rule(ch(' '), Kind::Skip), rule(st("ab"), Kind::Fallible(D_ERR)), rule(ch('c'), Kind::Simple)], "errors_quoted"));
    // errors inside right-context rules and with `$`
    out.push(Spec::single(
        vec![
            Rule { re: plus(ch('a')), ctx: Some(ch('b')), kind: Kind::Fallible(D_ERR) },
            rule(ch('a'), Kind::Act(D_CONTINUE)),
            rule(cat(ch('b'), Re::Eoi), Kind::Fallible(D_ERR)),
            rule(ch('b'), Kind::Fallible(D_RETURN)),
        ],
        "errors_ctx",
    ));
    out
}

/// Stress shapes for macro expansion (C12).
pub fn stress_family() -> Vec<Spec> {
    let mut out = vec![];
    // chains C^n for a class mixing a character and a range (each link is a state with two
    // incoming arms; the code generator inlines single-predecessor states)
    let c = set(&[('_', '_'), ('a', 'z')]);
    for n in 1..=13usize {
        let mut r = c.clone();
        for _ in 1..n {
            r = cat(r, c.clone());
        }
        let mut s = Spec::single(vec![ret(r), ret(Re::Any)], if n <= 8 { "chain" } else { "chain_long" });
        s.lets = vec![];
        out.push(s);
    }
    // the same through a variable
    for n in [3usize, 6] {
        let mut r = var("c");
        for _ in 1..n {
            r = cat(r, var("c"));
        }
        let mut s = Spec::single(vec![ret(r), ret(Re::Any)], "chain");
        s.lets = vec![("c".to_string(), c.clone())];
        out.push(s);
    }
    // built-ins in every position
    let b = |n: &str| builtin(n);
    out.push(Spec::single(vec![ret(cat(b("XID_Start"), star(b("XID_Continue")))), ret(plus(b("numeric"))), rule(plus(b("whitespace")), Kind::Skip), ret(Re::Any)], "builtins"));
    out.push(Spec::single(vec![ret(alt(plus(b("uppercase")), cat(b("lowercase"), opt(b("numeric"))))), ret(diff(b("alphanumeric"), b("alphabetic"))), ret(Re::Any)], "builtins"));
    out.push(Spec::single(vec![Rule { re: plus(b("alphabetic")), ctx: Some(alt(b("whitespace"), Re::Eoi)), kind: Kind::Act(D_RETURN) }, ret(plus(b("alphanumeric"))), ret(Re::Any)], "builtins"));
    out.push(Spec::multi(vec![vec![rule(plus(b("alphabetic")), Kind::Act(d_switch_return(1))), ret(Re::Any)], vec![rule(plus(b("numeric")), Kind::Act(d_switch_return(0))), ret(b("alphabetic"))]], "builtins"));
    // bracket sets that repeat a character / overlap
    out.push(Spec::single(vec![ret(set(&[('a', 'a'), ('a', 'a')])), ret(set(&[('b', 'd'), ('c', 'c'), ('b', 'b'), ('c', 'e')]))], "repeat"));
    out.push(Spec::single(vec![ret(plus(set(&[('a', 'c'), ('a', 'a'), ('c', 'c'), ('a', 'c')]))), ret(ch('x'))], "repeat"));
    // a 30-rule definition: keywords against an identifier rule, operators, numbers, comments
    let kws = ["ab", "abc", "abca", "ac", "acb", "b", "ba", "bab", "bb", "bc", "bca", "c", "ca", "cab", "cb", "cc", "aab", "aabb", "abab", "abba"];
    let mut rules: Vec<Rule> = kws.iter().map(|k| ret(st(k))).collect();
    rules.push(ret(plus(set(&[('a', 'c')]))));
    rules.push(ret(cat(ch('x'), plus(set(&[('a', 'c')])))));
    rules.push(ret(cat(st("xx"), star(diff(Re::Any, ch('x'))))));
    rules.push(rule(plus(ch('x')), Kind::Skip));
    rules.push(Rule { re: st("abc"), ctx: Some(ch('x')), kind: Kind::Act(D_RETURN) });
    rules.push(ret(cat(plus(ch('a')), cat(opt(ch('b')), plus(ch('c'))))));
    rules.push(ret(cat(st("ca"), alt(st("bb"), st("cc")))));
    rules.push(ret(cat(ch('b'), cat(Re::Any, ch('b')))));
    rules.push(ret(cat(set(&[('a', 'b')]), cat(set(&[('b', 'c')]), set(&[('a', 'a'), ('c', 'c')])))));
    rules.push(ret(Re::Any));
    out.push(Spec::single(rules, "thirty"));
    out
}

/// A rule that accepts, and a longer rule that leaves the accepting state through each kind of
/// transition (character, range, `_`, difference, string) into states that can still fail.
pub fn after_accept_family() -> Vec<Spec> {
    let xs = [ch('a'), set(&[('a', 'b')]), st("ab"), Re::Any];
    let ks = [ch('b'), set(&[('b', 'c')]), Re::Any, diff(Re::Any, ch('a')), st("ba")];
    let ys = [ch('c'), set(&[('a', 'c')]), st("cb")];
    let mut out = vec![];
    for x in &xs {
        for k in &ks {
            for y in &ys {
                out.push(Spec::single(vec![ret(x.clone()), ret(cat(cat(x.clone(), k.clone()), y.clone()))], "after_accept"));
                for k2 in &ks {
                    out.push(Spec::single(vec![ret(cat(cat(cat(x.clone(), k.clone()), k2.clone()), y.clone())), ret(x.clone()), ret(ch('x'))], "after_accept"));
                }
            }
        }
    }
    out
}

/// Repetition operators as one branch of an alternation that is followed / preceded by more.
pub fn alt_rep_family() -> Vec<Spec> {
    let rs = [ch('a'), st("ab"), set(&[('a', 'b')])];
    let xs = [ch('b'), ch('c'), st("ba")];
    let ts = [ch('c'), st("ab"), plus(ch('a'))];
    let ops: [fn(Re) -> Re; 3] = [star, plus, opt];
    let mut out = vec![];
    for r in &rs {
        for x in &xs {
            for t in &ts {
                for op in ops {
                    let a1 = alt(x.clone(), op(r.clone()));
                    let a2 = alt(op(r.clone()), x.clone());
                    for a in [a1, a2] {
                        out.push(Spec::single(vec![ret(cat(a.clone(), t.clone())), ret(set(&[('a', 'c')]))], "alt_rep"));
                        out.push(Spec::single(vec![ret(cat(t.clone(), a.clone())), ret(set(&[('a', 'c')]))], "alt_rep"));
                        out.push(Spec::single(vec![ret(cat(plus(a.clone()), t.clone())), ret(set(&[('a', 'c')]))], "alt_rep"));
                    }
                }
            }
        }
    }
    out.retain(|s| !s.sets[0].rules[0].re.nullable_syn());
    out
}

/// A match that is abandoned for an error (leaving a remembered match behind if the analysis is
/// wrong) followed by a failure in a join state that is flagged for backtracking but reached with
/// nothing recorded: a stale remembered match is consumed there.
pub fn stale_family() -> Vec<Spec> {
    let ks = [Re::Any, set(&[('b', 'c')]), ch('b'), diff(Re::Any, ch('c'))];
    let mut out = vec![];
    for k in &ks {
        for join in [cat(set(&[('b', 'b'), ('x', 'x')]), st("bc")), cat(cat(alt(ch('x'), ch('b')), star(ch('b'))), ch('a'))] {
            out.push(Spec::single(vec![ret(ch('a')), ret(cat(cat(ch('a'), k.clone()), ch('c'))), ret(ch('x')), ret(join.clone())], "stale"));
            out.push(Spec::single(
                vec![Rule { re: ch('a'), ctx: Some(ch('b')), kind: Kind::Act(D_RETURN) }, ret(st("abcc")), ret(ch('x')), ret(join.clone()), ret(ch('c'))],
                "stale",
            ));
        }
    }
    out
}

/// Two rules that start with overlapping / nested / adjacent ranges and continue differently
/// (the ranges of several rules are split against each other in subset construction).
pub fn range_overlap_family() -> Vec<Spec> {
    let rs = [('a', 'c'), ('b', 'd'), ('c', 'e'), ('a', 'e'), ('b', 'c'), ('d', 'e'), ('a', 'a')];
    let mut out = vec![];
    for (i, r1) in rs.iter().enumerate() {
        for (j, r2) in rs.iter().enumerate() {
            if i == j {
                continue;
            }
            out.push(Spec::single(vec![ret(cat(set(&[*r1]), ch('x'))), ret(cat(set(&[*r2]), ch('c'))), ret(ch('x'))], "range_overlap"));
        }
    }
    // with `_` and single characters in the same state, and followed by alternations / repetition
    out.push(Spec::single(vec![ret(cat(set(&[('a', 'c')]), ch('a'))), ret(cat(Re::Any, alt(ch('x'), ch('b')))), ret(ch('c'))], "range_overlap"));
    out.push(Spec::single(vec![ret(cat(set(&[('b', 'c')]), ch('a'))), ret(cat(Re::Any, opt(ch('x')))), ret(cat(ch('b'), ch('b')))], "range_overlap"));
    out.push(Spec::single(vec![ret(cat(set(&[('a', 'c')]), star(ch('x')))), ret(cat(set(&[('b', 'e')]), plus(ch('c'))))], "range_overlap"));
    // a character and ranges leading to the same state, the character covered by another rule's range
    out.push(Spec::single(vec![ret(cat(set(&[('b', 'b'), ('c', 'd'), ('x', 'x')]), ch('a'))), ret(cat(set(&[('a', 'c'), ('x', 'x')]), ch('b')))], "range_overlap"));
    out.push(Spec::single(vec![ret(cat(set(&[('a', 'c'), ('x', 'x')]), ch('b'))), ret(cat(set(&[('b', 'b'), ('c', 'd'), ('x', 'x')]), ch('a')))], "range_overlap"));
    // a character with its own continuation, inside a range with another, beside `_` with a third
    out.push(Spec::single(vec![ret(cat(ch('b'), ch('x'))), ret(cat(set(&[('a', 'c')]), ch('a'))), ret(cat(Re::Any, ch('c')))], "range_overlap"));
    out.push(Spec::single(vec![ret(alt(alt(cat(ch('b'), ch('x')), cat(set(&[('a', 'c')]), ch('a'))), cat(Re::Any, ch('c'))))], "range_overlap"));
    out
}

/// A character and a range leading to the same state while a range of another rule (with another
/// target) covers the character — in both rule orders, as two rules and as one alternation, and
/// behind 0..3 padding rules that shift the state numbering (the order of range arms in generated
/// code follows a hash map keyed by state index).  Alphabet: `FOLD_ALPHABET`.
pub const FOLD_ALPHABET: [char; 8] = ['a', 'b', 'c', 'm', 'x', 'y', '1', '2'];
pub fn fold_family() -> Vec<Spec> {
    let layouts: Vec<(Re, Re)> = vec![
        (set(&[('b', 'b'), ('m', 'n'), ('x', 'z')]), set(&[('a', 'c'), ('m', 'n'), ('y', 'y')])),
        (set(&[('c', 'c'), ('a', 'b')]), set(&[('a', 'd')])),
        (set(&[('m', 'm'), ('x', 'y'), ('a', 'b')]), set(&[('a', 'y')])),
    ];
    let pads = [st("1m"), st("2x1"), cat(ch('1'), plus(ch('2')))];
    let mut out = vec![];
    for (s1, s2) in &layouts {
        for npad in 0..=pads.len() {
            for order in 0..2 {
                let r1 = cat(s1.clone(), ch('1'));
                let r2 = cat(s2.clone(), ch('2'));
                let (first, second) = if order == 0 { (r1, r2) } else { (r2, r1) };
                let mut two: Vec<Rule> = pads[..npad].iter().cloned().map(ret).collect();
                two.push(ret(first.clone()));
                two.push(ret(second.clone()));
                out.push(Spec::single(two, "fold"));
                let mut one: Vec<Rule> = pads[..npad].iter().cloned().map(ret).collect();
                one.push(ret(alt(first, second)));
                out.push(Spec::single(one, "fold"));
            }
        }
    }
    // one state with a range, a character inside it, a character outside it and `_`, each
    // continuing differently (the subset construction visits the characters in hash order)
    for (i, inside) in ['a', 'b', 'c'].into_iter().enumerate() {
        for (j, outside) in ['m', 'x', 'y', '1', '2'].into_iter().enumerate() {
            let mut rules = vec![ret(cat(ch(inside), ch('1'))), ret(cat(set(&[('a', 'c')]), ch('2'))), ret(cat(ch(outside), ch('1'))), ret(cat(Re::Any, ch('y')))];
            if (i + j) % 2 == 1 {
                rules.reverse();
            }
            out.push(Spec::single(rules, "any_merge"));
        }
    }
    out
}

/// Ranges next to and across the surrogate gap, above it, and up to `char::MAX`.  Alphabet: `HIGH_ALPHABET`.
pub const HIGH_ALPHABET: [char; 8] = ['a', '\u{D7FF}', '\u{E000}', '\u{F900}', '\u{FF20}', '\u{FFFF}', '\u{10000}', '\u{10FFFF}'];
pub fn high_family() -> Vec<Spec> {
    let r = |a: char, b: char| set(&[(a, b)]);
    vec![
        Spec::single(vec![ret(plus(r('a', '\u{FFFF}'))), ret(Re::Any)], "high"),
        Spec::single(vec![ret(plus(r('\u{FF01}', '\u{FF5E}'))), ret(Re::Any)], "high"),
        Spec::single(vec![ret(plus(r('\u{80}', '\u{10FFFF}'))), ret(ch('a'))], "high"),
        Spec::single(vec![ret(cat(r('\u{D7FF}', '\u{E000}'), ch('a'))), ret(Re::Any)], "high"),
        Spec::single(vec![ret(plus(diff(Re::Any, r('\u{E000}', '\u{FFFF}')))), ret(Re::Any)], "high"),
        Spec::single(vec![ret(plus(r('\u{E001}', '\u{FFFF}'))), ret(plus(r('\u{10000}', '\u{10FFFF}'))), ret(r('\u{0}', '\u{E000}'))], "high"),
        Spec::single(vec![ret(cat(r('\u{F000}', '\u{10000}'), r('\u{FF00}', '\u{10FFFE}'))), ret(Re::Any)], "high"),
    ]
}

/// Interactions of right contexts with classes: (a) a context rule whose lexeme ends in several
/// characters / ranges, each with its own lower-priority rule (the fallback differs per character
/// when the context fails); (b) a context in which a character completes the context while a range
/// covering it continues; (c) sets with nested members under `#`, in rules and in contexts;
/// (d) a character covered by a same-target range inside a context that continues.
pub fn ctx_fallback_family() -> Vec<Spec> {
    let cx = |re: Re, c: Re| Rule { re, ctx: Some(c), kind: Kind::Act(D_RETURN) };
    let nested = set(&[('a', 'c'), ('b', 'b')]);
    vec![
        Spec::single(vec![cx(set(&[('a', 'a'), ('b', 'b')]), ch('x')), ret(ch('a')), ret(ch('b')), ret(set(&[('c', 'c'), ('x', 'x')]))], "ctx_fallback"),
        Spec::single(vec![cx(set(&[('a', 'c')]), ch('x')), ret(set(&[('a', 'b')])), ret(Re::Any)], "ctx_fallback"),
        Spec::single(vec![cx(cat(ch('c'), set(&[('a', 'a'), ('b', 'b'), ('x', 'x')])), ch('x')), ret(st("ca")), ret(st("cb")), ret(st("cx")), ret(set(&[('a', 'c'), ('x', 'x')]))], "ctx_fallback"),
        Spec::single(vec![cx(set(&[('a', 'a'), ('b', 'c')]), ch('x')), ret(ch('a')), ret(set(&[('b', 'c')])), ret(ch('x'))], "ctx_fallback"),
        Spec::single(vec![cx(set(&[('a', 'a'), ('b', 'b'), ('c', 'c')]), ch('x')), cx(set(&[('a', 'a'), ('c', 'c')]), ch('b')), ret(ch('b')), ret(set(&[('a', 'c'), ('x', 'x')]))], "ctx_fallback"),
        Spec::single(vec![cx(st("ab"), alt(ch('c'), cat(set(&[('a', 'c')]), ch('x')))), ret(ch('a')), ret(ch('b')), ret(set(&[('c', 'c'), ('x', 'x')]))], "ctx_arm"),
        Spec::single(vec![cx(ch('a'), alt(cat(set(&[('a', 'c')]), ch('x')), set(&[('b', 'b'), ('x', 'x')]))), ret(set(&[('a', 'c'), ('x', 'x')]))], "ctx_arm"),
        Spec::single(vec![cx(ch('x'), cat(nested.clone(), ch('a'))), ret(set(&[('a', 'c'), ('x', 'x')]))], "ctx_arm"),
        Spec::single(vec![cx(ch('x'), cat(alt(ch('b'), set(&[('a', 'c')])), plus(ch('a')))), ret(set(&[('a', 'c'), ('x', 'x')]))], "ctx_arm"),
        Spec::single(vec![ret(plus(diff(nested.clone(), ch('x')))), ret(ch('x'))], "diff_nested"),
        Spec::single(vec![cx(ch('x'), diff(Re::Any, nested.clone())), ret(ch('x')), ret(set(&[('a', 'c')]))], "diff_nested"),
        Spec::single(vec![cx(plus(ch('a')), alt(diff(Re::Any, set(&[('a', 'c'), ('c', 'c'), ('b', 'b')])), Re::Eoi)), ret(set(&[('a', 'c'), ('x', 'x')]))], "diff_nested"),
    ]
}

/// Delimited lexemes: a `_` (or `_ # c`) loop between delimiters — the `_` transition leads to a
/// state with several predecessors (never inlined).
pub fn delimited_family() -> Vec<Spec> {
    vec![
        Spec::single(vec![ret(cat(cat(ch('a'), star(Re::Any)), ch('b'))), ret(ch('c')), ret(ch('a'))], "delimited"),
        Spec::single(vec![ret(cat(cat(ch('a'), star(diff(Re::Any, ch('b')))), ch('b'))), ret(plus(ch('c'))), ret(ch('x'))], "delimited"),
        Spec::single(vec![ret(cat(cat(st("ab"), star(Re::Any)), st("ba"))), ret(ch('a')), ret(ch('b'))], "delimited"),
        Spec::single(vec![ret(cat(cat(ch('a'), plus(cat(Re::Any, ch('c')))), ch('b'))), ret(set(&[('a', 'c')]))], "delimited"),
    ]
}

/// Failures in a loop or join state that is *not* an inlined single-predecessor state, before any
/// accepting state was passed (a direct failure, not a rewind), with text after it that the
/// abandoned lexeme could have continued with.
pub fn cold_loop_family() -> Vec<Spec> {
    vec![
        Spec::single(vec![ret(cat(cat(ch('a'), star(st("bc"))), ch('x'))), ret(ch('b')), ret(ch('c')), ret(ch('x'))], "cold_loop"),
        Spec::single(vec![ret(cat(cat(alt(st("ab"), ch('b')), star(ch('c'))), ch('x'))), ret(ch('c')), ret(ch('x'))], "cold_loop"),
        Spec::single(vec![ret(cat(cat(ch('a'), plus(alt(ch('b'), st("cb")))), ch('x'))), ret(plus(ch('x'))), ret(ch('b'))], "cold_loop"),
    ]
}

/// A diamond: two paths (one through an accepting state) join and continue for several steps.
pub fn diamond_family() -> Vec<Spec> {
    let mut out = vec![];
    for tail in [st("bcd"), cat(st("bc"), plus(ch('d'))), cat(ch('b'), cat(set(&[('b', 'c')]), ch('d')))] {
        for head in [alt(ch('a'), ch('x')), set(&[('a', 'a'), ('x', 'x')]), alt(ch('x'), ch('a'))] {
            out.push(Spec::single(vec![ret(ch('a')), ret(cat(head.clone(), tail.clone())), ret(ch('d'))], "diamond"));
            out.push(Spec::single(vec![ret(cat(head.clone(), tail.clone())), ret(ch('a')), ret(ch('b'))], "diamond"));
        }
    }
    out
}

/// Built-in classes inside rules: search tables in front of further states, several class-led rules.
pub fn builtin_rules_family() -> Vec<Spec> {
    let b = |n: &str| builtin(n);
    vec![
        Spec::single(vec![ret(plus(b("alphabetic"))), ret(plus(b("ascii_digit"))), ret(Re::Any)], "builtin_rules"),
        Spec::single(vec![ret(cat(b("XID_Start"), star(b("XID_Continue")))), ret(cat(plus(b("numeric")), opt(cat(ch('.'), plus(b("numeric")))))), ret(Re::Any)], "builtin_rules"),
        Spec::single(vec![ret(cat(b("uppercase"), plus(b("lowercase")))), ret(plus(diff(b("alphanumeric"), b("uppercase")))), ret(plus(b("uppercase")))], "builtin_rules"),
        Spec::single(vec![ret(plus(alt(b("lowercase"), ch('_')))), ret(cat(set(&[('0', '9'), ('a', 'b'), ('d', 'e'), ('g', 'h'), ('j', 'k'), ('m', 'n'), ('p', 'q'), ('s', 't'), ('v', 'w'), ('y', 'z'), ('A', 'Z')]), ch('!'))), ret(Re::Any)], "builtin_rules"),
        Spec::single(vec![ret(cat(plus(b("ascii_lowercase")), ch('.'))), ret(cat(plus(b("ascii_graphic")), ch('!'))), ret(Re::Any)], "builtin_rules"),
        Spec::single(vec![ret(b("lowercase")), ret(b("alphabetic")), ret(Re::Any)], "builtin_rules"),
        Spec::single(vec![ret(plus(alt(b("control"), b("whitespace")))), ret(plus(b("ascii_punctuation"))), ret(ch('a'))], "builtin_rules"),
    ]
}
pub const LONG_KEYWORD: &str = "abcabcabcaabbccabcabcabcaabbccabcabcabcab";
pub const TABLE_ALPHABET: [char; 8] = ['a', 'z', 'Z', '9', '_', '!', '.', '\u{10FFFF}'];

/// Shapes that every end-to-end check explores under its own projection, whatever else it has:
/// each was once the only way to see a seeded change.
pub fn shape_pool(q: bool) -> Vec<Spec> {
    let mut v = regress_single();
    v.extend(after_accept_family().into_iter().step_by(if q { 8 } else { 2 }));
    v.extend(alt_rep_family().into_iter().step_by(if q { 12 } else { 3 }));
    v.extend(stale_family());
    v.extend(diamond_family().into_iter().step_by(if q { 2 } else { 1 }));
    v.extend(delimited_family());
    v.extend(range_overlap_family().into_iter().step_by(if q { 3 } else { 1 }));
    v.extend(ctx_family(false).into_iter().filter(|s| s.family == "ctx_past" || s.family == "ctx_shared"));
    v.extend(eoi_family().into_iter().filter(|s| s.family == "eoi1").step_by(if q { 3 } else { 1 }));
    // a lexeme longer than 32 characters matched by a non-looping regex
    v.push(Spec::single(vec![ret(st(LONG_KEYWORD)), ret(plus(set(&[('a', 'c')]))), ret(ch('x'))], "long_keyword"));
    // several right-context rules accepting the same lexeme in a state with successors
    v.push(Spec::single(
        vec![Rule { re: plus(ch('a')), ctx: Some(Re::Any), kind: Kind::Act(D_RETURN) }, Rule { re: plus(ch('a')), ctx: Some(ch('b')), kind: Kind::Act(D_RETURN) }, ret(plus(ch('a'))), ret(ch('b'))],
        "ctx_prio",
    ));
    v.push(Spec::single(
        vec![Rule { re: plus(set(&[('a', 'b')])), ctx: Some(ch('c')), kind: Kind::Act(D_CONTINUE) }, Rule { re: plus(set(&[('a', 'b')])), ctx: Some(set(&[('c', 'c'), ('x', 'x')])), kind: Kind::Act(D_RETURN) }, ret(set(&[('a', 'c')])), ret(ch('x'))],
        "ctx_prio",
    ));
    // a right-context rule (continuing) whose lexeme ends in a state without successors, over a lower-priority rule
    v.push(Spec::single(vec![Rule { re: ch('a'), ctx: Some(ch('b')), kind: Kind::Act(D_CONTINUE) }, ret(ch('a')), ret(ch('b'))], "ctx_prio"));
    // `$` rules with a right context (which can never hold after the end of input)
    v.push(Spec::single(vec![Rule { re: alt(ch('c'), Re::Eoi), ctx: Some(ch('a')), kind: Kind::Act(D_RETURN) }, ret(ch('a')), ret(ch('b'))], "eoi_ctx"));
    v.push(Spec::single(vec![Rule { re: Re::Eoi, ctx: Some(ch('a')), kind: Kind::Act(D_RETURN) }, ret(plus(ch('a')))], "eoi_ctx"));
    // a lexeme whose only rule has a failing context, right before the end of input, with a `$` rule waiting
    v.push(Spec::single(vec![Rule { re: ch('a'), ctx: Some(ch('b')), kind: Kind::Act(D_RETURN) }, ret(Re::Eoi), ret(ch('c'))], "eoi_ctx"));
    v.push(Spec::single(vec![Rule { re: st("ab"), ctx: Some(ch('b')), kind: Kind::Act(D_RETURN) }, ret(cat(ch('x'), Re::Eoi)), ret(Re::Eoi), ret(ch('c'))], "eoi_ctx"));
    v.extend(ctx_fallback_family());
    // sizes: a 30-rule definition, deep nesting, many alternatives
    v.extend(stress_family().into_iter().filter(|s| s.family == "thirty"));
    v.push(Spec::single(vec![ret(plus(cat(star(alt(ch('a'), ch('b'))), ch('c')))), ret(ch('a')), ret(ch('x'))], "nested"));
    v.push(Spec::single(vec![ret(plus(cat(ch('a'), opt(cat(ch('b'), opt(ch('c'))))))), ret(st("abx")), ret(set(&[('a', 'c')]))], "nested"));
    v.push(Spec::single(vec![ret(cat(alt(star(st("ab")), plus(st("ba"))), ch('c'))), ret(ch('a')), ret(ch('b'))], "nested"));
    v.push(Spec::single(
        vec![ret(alt(alt(alt(alt(st("ab"), st("ac")), alt(st("ba"), st("bc"))), alt(st("ca"), st("cb"))), alt(st("abc"), st("cba")))), ret(set(&[('a', 'c')]))],
        "nested",
    ));
    v
}

/// Feature combinations: one shape of each pool family, (a) moved into a second rule set that is
/// entered and left by switches, (b) with every action fallible, (c) with a right context on its
/// first rule — and every combination of two and three of these.
pub fn combo_family(q: bool) -> Vec<Spec> {
    let mut seen: Vec<&'static str> = vec![];
    let mut bases: Vec<Spec> = vec![];
    for s in shape_pool(q) {
        let plain = s.lets.is_empty() && s.sets.len() == 1 && s.sets[0].rules.len() <= 6 && s.sets[0].rules.iter().all(|r| !r.re.has_eoi());
        if !plain || seen.iter().filter(|f| **f == s.family).count() >= if q { 1 } else { 3 } {
            continue;
        }
        seen.push(s.family);
        bases.push(s);
    }
    let fallible = |rules: &[Rule]| -> Vec<Rule> { rules.iter().map(|r| Rule { kind: match r.kind { Kind::Act(d) => Kind::Fallible(d), k => k }, ..r.clone() }).collect() };
    let with_ctx = |rules: &[Rule], c: &Re| -> Vec<Rule> {
        let mut v = rules.to_vec();
        if v[0].ctx.is_none() {
            v[0].ctx = Some(c.clone());
        }
        v
    };
    let in_set2 = |rules: &[Rule], fall: bool| -> Spec {
        let k = |d: u8| if fall { Kind::Fallible(d) } else { Kind::Act(d) };
        let mut inner = rules.to_vec();
        let last = inner.len() - 1;
        inner[last].kind = k(d_switch_return(0));
        inner[0].kind = k(d_switch_return(2));
        Spec::multi(
            vec![
                vec![rule(ch('x'), k(d_switch_return(1))), rule(cat(ch('x'), ch('x')), k(d_switch(1))), rule(set(&[('a', 'c')]), k(D_RETURN))],
                inner,
                vec![rule(ch('x'), k(d_switch_return(1))), rule(plus(set(&[('a', 'b')])), k(d_switch_return(0))), rule(ch('c'), k(D_CONTINUE))],
            ],
            "combo",
        )
    };
    let ctxs = [alt(set(&[('a', 'c')]), Re::Eoi), ch('b'), cat(Re::Any, opt(ch('x')))];
    let mut out = vec![];
    for (i, b) in bases.iter().enumerate() {
        let r = &b.sets[0].rules;
        let c = &ctxs[i % ctxs.len()];
        let mut push = |rules: Vec<Rule>| out.push(Spec::single(rules, "combo"));
        push(fallible(r));
        push(with_ctx(r, c));
        push(fallible(&with_ctx(r, c)));
        out.push(in_set2(r, false));
        out.push(in_set2(r, true));
        out.push(in_set2(&with_ctx(r, c), false));
        out.push(in_set2(&with_ctx(r, c), true));
    }
    out
}

/// The pool as two groups (letters a b c x; characters at the ends of table ranges).
pub fn pool_groups(prop: &'static str, proj: Proj, q: bool, max_dev: usize) -> Vec<Group> {
    let mut p1 = plan(prop, proj, 5, max_dev);
    p1.extra_inputs = vec![LONG_KEYWORD.into(), format!("{}x{}", &LONG_KEYWORD[..33], LONG_KEYWORD), format!("{}c", LONG_KEYWORD), "abcabcabcabx".into(), "aaaaaaaaaaaaab".into(), "abababababababc".into(), "cbacbacbaxcba".into(), "abcbabcbabcbx".into(), "xxxxxxxxab".into()];
    let mut p2 = plan(prop, proj, if q { 3 } else { 4 }, 0);
    p2.alphabet = TABLE_ALPHABET.to_vec();
    p2.extra_inputs = vec!["az9_!".into(), "zZ.9\u{10FFFF}a".into(), "aZz99.9!".into()];
    // classes at the guard-chain / search-table threshold (MAX_GUARD_SIZE ranges and one more)
    let nranges = |n: usize| -> Re {
        // real ranges (single characters are character transitions and do not count towards a table)
        let mut v = vec![('0', '9'), ('A', 'Z'), ('a', 'b'), ('y', 'z')];
        v.extend([('d', 'e'), ('g', 'h'), ('j', 'k'), ('m', 'n'), ('p', 'q'), ('s', 't'), ('v', 'w')].into_iter().take(n.saturating_sub(4)));
        Re::Set(v)
    };
    let mut thresholds: Vec<Spec> = vec![];
    for n in if q { vec![9usize, 10] } else { vec![8usize, 9, 10, 11] } {
        thresholds.push(Spec::single(vec![ret(cat(nranges(n), ch('!'))), ret(plus(nranges(n))), ret(ch('z'))], "threshold"));
        thresholds.push(Spec::single(vec![Rule { re: ch('!'), ctx: Some(cat(nranges(n), ch('z'))), kind: Kind::Act(D_RETURN) }, ret(set(&[('a', 'z')])), ret(ch('!'))], "threshold"));
    }
    // a built-in class (a search table) inside a right context that continues
    thresholds.push(Spec::single(vec![Rule { re: ch('!'), ctx: Some(cat(builtin("alphabetic"), ch('z'))), kind: Kind::Act(D_RETURN) }, ret(set(&[('a', 'z')])), ret(ch('!'))], "threshold"));
    // the table lexers are expensive to compile: the quick tier keeps three of them
    let tables: Vec<Spec> = if q { builtin_rules_family().into_iter().enumerate().filter(|(i, _)| [0usize, 2, 3].contains(i)).map(|(_, s)| s).collect() } else { builtin_rules_family() };
    let mut tables = tables;
    tables.extend(thresholds);
    // the same shapes over multi-byte characters (strings and sets are sequences of characters)
    let mut p3 = plan(prop, proj, if q { 4 } else { 5 }, 0);
    p3.alphabet = BETA2.to_vec();
    let bound: Vec<Spec> = shape_pool(q)
        .into_iter()
        .filter(|s| s.lets.is_empty() && s.family != "long_keyword" && s.family != "thirty")
        .step_by(if q { 3 } else { 1 })
        .map(|s| Spec { sets: s.sets.iter().map(|set| RuleSet { lets: vec![], rules: set.rules.iter().map(|r| Rule { re: bind(&r.re, &BETA2), ctx: r.ctx.as_ref().map(|c| bind(c, &BETA2)), kind: r.kind }).collect() }).collect(), family: "pool_bound", ..s.clone() })
        .collect();
    let mut p4 = plan(prop, proj, 3, 0);
    p4.alphabet = FOLD_ALPHABET.to_vec();
    let fold: Vec<Spec> = fold_family().into_iter().step_by(if q { 3 } else { 1 }).collect();
    let p6 = plan(prop, proj, 4, max_dev.max(1));
    let mut p5 = plan(prop, proj, 3, 0);
    p5.alphabet = HIGH_ALPHABET.to_vec();
    vec![Group { plan: p1, specs: shape_pool(q) }, Group { plan: p2, specs: tables }, Group { plan: p3, specs: bound }, Group { plan: p4, specs: fold }, Group { plan: p5, specs: high_family() }, Group { plan: p6, specs: combo_family(q) }]
}

fn with<F: FnOnce(&mut Plan)>(mut p: Plan, f: F) -> Plan {
    f(&mut p);
    p
}

/// The groups (plan + definitions) explored for a property at a tier: the property's own
/// families plus the common shape pool under the property's projection.
pub fn groups(prop: &str, tier: &str) -> Vec<Group> {
    let mut g = groups_core(prop, tier);
    let q = tier != "thorough";
    let pooled: Option<(&'static str, Proj, usize)> = match prop {
        "C01" => {
            g.push(Group { plan: plan("C01", Proj::Tokens, if q { 4 } else { 5 }, 1), specs: groups_core("C03", tier).remove(0).specs.into_iter().step_by(if q { 3 } else { 1 }).collect() });
            Some(("C01", Proj::Tokens, 0))
        }
        "C02" => Some(("C02", Proj::Tokens, 0)),
        "C04" => Some(("C04", Proj::Full, 0)),
        "C05" => Some(("C05", Proj::Full, 1)),
        "C06" => Some(("C06", Proj::Locs, 0)),
        "C07" => {
            g.push(Group { plan: plan("C07", Proj::Errors, if q { 4 } else { 5 }, 1), specs: groups_core("C03", tier).remove(0).specs.into_iter().step_by(if q { 3 } else { 1 }).collect() });
            // contexts and classes written with (rule-set-local) variables: a wrong binding shows as a spurious / missing InvalidToken
            g.push(Group {
                plan: plan("C07", Proj::Errors, if q { 4 } else { 5 }, 0),
                specs: groups_core("C16", tier).remove(0).specs.into_iter().filter(|s| matches!(s.family, "let_scope_ctx" | "let_chain" | "let_scope" | "let_builtin_name")).collect(),
            });
            Some(("C07", Proj::Errors, 0))
        }
        "C08" => Some(("C08", Proj::Recovery, 0)),
        "C09" => Some(("C09", Proj::Progress, 0)),
        "C10" => Some(("C10", Proj::Full, 1)),
        "C14" => Some(("C14", Proj::Ctors, 0)),
        "C15" => Some(("C15", Proj::Clones, 0)),
        _ => None,
    };
    if let Some((p, proj, dev)) = pooled {
        let template = g[0].plan.clone();
        for mut pg in pool_groups(p, proj, q, dev) {
            pg.plan.ctors = template.ctors.clone();
            pg.plan.check_probe_neutral = template.check_probe_neutral;
            pg.plan.clone_depth = template.clone_depth;
            pg.plan.pieces = template.pieces;
            if proj == Proj::Clones {
                pg.plan.max_len = pg.plan.max_len.min(if q { 3 } else { 4 });
                pg.specs = pg.specs.into_iter().step_by(2).collect();
            }
            g.push(pg);
        }
    }
    g
}

fn groups_core(prop: &str, tier: &str) -> Vec<Group> {
    let q = tier != "thorough";
    let a6 = atoms6();
    let a12 = atoms12();
    match prop {
        "C01" => {
            let mut specs = regress_single();
            specs.extend(pair_family());
            // one representative per automaton shape signature
            if q {
                specs.extend(selected("pair3_a12", 250));
                specs.extend(selected("single4_a12", 100));
                specs.extend(selected("triple2_a6", 50));
            } else {
                specs.extend(selected("pair3_a12", usize::MAX));
                specs.extend(selected("single4_a12", usize::MAX));
                specs.extend(selected("single5_a6", usize::MAX));
                specs.extend(selected("triple2_a6", usize::MAX));
                specs.extend(pair_enum(3, &a12, 53, 7, 800));
                specs.extend(triple_enum(2, &a6, 3, 300));
            }
            let mut p = plan("C01", Proj::Tokens, if q { 6 } else { 7 }, 0);
            p.extra_inputs = vec!["bbabx".into(), "cbaabx".into(), "abcabcabx".into(), "abcabcaab".into()];
            let wide: Vec<Spec> = pair_family().into_iter().step_by(if q { 3 } else { 1 }).map(|s| Spec::single(s.sets[0].rules.iter().map(|r| ret(bind(&r.re, &BETA2))).collect(), "pair_bound")).collect();
            let pw = with(plan("C01", Proj::Tokens, if q { 4 } else { 5 }, 0), |p| p.alphabet = BETA2.to_vec());
            let mut shapes: Vec<Spec> = ctx_family(false).into_iter().step_by(if q { 3 } else { 1 }).collect();
            shapes.extend(after_accept_family().into_iter().step_by(if q { 7 } else { 1 }));
            shapes.extend(alt_rep_family().into_iter().step_by(if q { 5 } else { 1 }));
            let ps = plan("C01", Proj::Tokens, 5, 0);
            let pst = plan("C01", Proj::Tokens, 6, 0);
            vec![Group { plan: p, specs }, Group { plan: pw, specs: wide }, Group { plan: ps, specs: shapes }, Group { plan: pst, specs: stale_family() }]
        }
        "C02" => {
            let specs: Vec<Spec> = if q { single_enum(3, &a6, 1, 400) } else { single_enum(4, &a12, 2, 1200) };
            // the same operators over multi-byte characters (strings are sequences of characters, not bytes)
            let bound = |beta: &[char; 4], n: usize| -> Group {
                let specs: Vec<Spec> = single_enum(3, &a12, 1, 1000)
                    .into_iter()
                    .filter(|s| matches!(&s.sets[0].rules[0].re, r if format!("{r:?}").contains("Str")))
                    .take(n)
                    .map(|s| Spec::single(vec![ret(bind(&s.sets[0].rules[0].re, beta)), ret(bind(&ch('x'), beta))], "single_bound"))
                    .collect();
                Group { plan: with(plan("C02", Proj::Tokens, 5, 0), |p| p.alphabet = beta.to_vec()), specs }
            };
            let builtin_rules = builtin_rules_family();
            let pb = with(plan("C02", Proj::Tokens, if q { 4 } else { 5 }, 0), |p| p.alphabet = TABLE_ALPHABET.to_vec());
            let pf = with(plan("C02", Proj::Tokens, 3, 0), |p| p.alphabet = FOLD_ALPHABET.to_vec());
            vec![Group { plan: plan("C02", Proj::Tokens, 6, 0), specs }, bound(&BETA1, if q { 40 } else { 300 }), bound(&BETA2, if q { 40 } else { 300 }), Group { plan: pb, specs: builtin_rules }, Group { plan: pf, specs: fold_family() }]
        }
        "C03" => {
            let mut specs = if q { sets_family(6, &[2, 3, 5, 10], true) } else { sets_family(11, &[0, 2, 3, 5, 6, 9, 10], true) };
            // the delimited shape (`_` loop) first / in the middle, so that inlined and numbered states surround it
            {
                let sh = set_shapes();
                let mk = |v: &Vec<Re>, to: usize| -> Vec<Rule> { v.iter().enumerate().map(|(i, r)| rule(r.clone(), if i == 0 { Kind::Act(d_switch_return(to)) } else { Kind::Act(D_RETURN) })).collect() };
                specs.push(Spec::multi(vec![mk(&sh[10], 1), mk(&sh[2], 2), mk(&sh[6], 0)], "sets_delimited"));
                specs.push(Spec::multi(vec![mk(&sh[2], 1), mk(&sh[10], 2), mk(&sh[3], 0)], "sets_delimited"));
                specs.push(Spec::multi(vec![mk(&sh[6], 1), mk(&sh[10], 0)], "sets_delimited"));
            }
            // a rule set entered by a switch whose automaton has the "abandoned match" and the
            // "join reached with nothing recorded" shapes, next to an Init with overlapping rules
            for (pi, pooled) in shape_pool(q).into_iter().filter(|s| s.sets[0].rules.iter().all(|r| !r.re.has_eoi())).enumerate() {
                if q && pi % 2 == 1 && pooled.family != "stale" {
                    continue;
                }
                let inner: Vec<Rule> = pooled.sets[0].rules.iter().enumerate().map(|(i, r)| Rule { kind: if i == 0 { Kind::Act(d_switch_return(0)) } else { Kind::Act(D_RETURN) }, ..r.clone() }).collect();
                specs.push(Spec::multi(vec![vec![rule(ch('c'), Kind::Act(d_switch_return(1))), ret(ch('x')), ret(ch('b')), ret(cat(set(&[('b', 'b'), ('a', 'a')]), st("bc")))], inner], "sets_pool"));
            }
            // fallible rules in every rule set: an action's `Err` is not a failure and must not
            // change the active rule set
            let fallible: Vec<Spec> = sets_family(6, &[3], false)
                .into_iter()
                .step_by(if q { 4 } else { 1 })
                .map(|mut s| {
                    for set in s.sets.iter_mut() {
                        for r in set.rules.iter_mut() {
                            if let Kind::Act(d) = r.kind {
                                r.kind = Kind::Fallible(d);
                            }
                        }
                    }
                    s.family = "sets_fallible";
                    s
                })
                .collect();
            specs.extend(fallible);
            // a chain of more than 32 single-predecessor states (a long keyword) in Init, in the middle
            // and in the last rule set, the neighbouring rule sets ready to continue the chain's text
            let kw = |to: usize| rule(st(LONG_KEYWORD), Kind::Act(d_switch_return(to)));
            let cont = |to: usize| vec![rule(ch('a'), Kind::Act(d_switch_return(to))), ret(st("bc")), ret(ch('b')), ret(ch('c'))];
            let mut long = vec![
                Spec::multi(vec![vec![kw(1), rule(ch('c'), Kind::Act(d_switch_return(1))), ret(ch('x'))], cont(0)], "sets_long"),
                Spec::multi(vec![vec![rule(ch('c'), Kind::Act(d_switch_return(1))), ret(ch('a'))], vec![kw(2), rule(ch('x'), Kind::Act(d_switch_return(0)))], cont(0)], "sets_long"),
                Spec::multi(vec![cont(1), vec![kw(0), ret(ch('x'))]], "sets_long"),
                Spec::multi(vec![vec![kw(0), ret(plus(set(&[('a', 'c')])))], cont(0)], "sets_long"),
            ];
            for s in long.iter_mut() {
                s.named = true;
            }
            let mut pl = plan("C03", Proj::RuleIds, 3, 1);
            pl.extra_inputs = vec![
                LONG_KEYWORD.into(),
                format!("{}abc", LONG_KEYWORD),
                format!("c{}abc", LONG_KEYWORD),
                format!("a{}x", LONG_KEYWORD),
                format!("{}bc", &LONG_KEYWORD[..33]),
                format!("c{}bc", &LONG_KEYWORD[..33]),
                format!("{}a", &LONG_KEYWORD[..36]),
                format!("c{}cb", &LONG_KEYWORD[..40]),
            ];
            vec![Group { plan: plan("C03", Proj::RuleIds, 5, if q { 2 } else { 3 }), specs }, Group { plan: pl, specs: long }]
        }
        "C04" => {
            let mut specs = ctx_family(!q);
            // contexts written with rule-set-local variables (same name, different meaning per rule set)
            specs.extend(groups_core("C16", tier).remove(0).specs.into_iter().filter(|s| s.family == "let_scope_ctx" || s.family == "let_chain"));
            vec![Group { plan: plan("C04", Proj::Full, if q { 5 } else { 6 }, if q { 0 } else { 1 }), specs }]
        }
        "C05" => {
            let mut p = plan("C05", Proj::Full, if q { 5 } else { 6 }, 2);
            p.alphabet = vec!['a', 'b', 'c'];
            p.pieces = true;
            let mut specs = eoi_family();
            specs.extend(selected("eoi2_a6", if q { 60 } else { usize::MAX }));
            let mut pc = plan("C05", Proj::Full, if q { 4 } else { 5 }, 1);
            pc.alphabet = vec!['a', 'b', 'c'];
            let in_ctx: Vec<Spec> = ctx_family(false).into_iter().filter(|s| s.family == "ctx_nested" && s.sets[0].rules.iter().any(|r| r.ctx.as_ref().map_or(false, |c| c.has_eoi()))).collect();
            vec![Group { plan: p, specs }, Group { plan: pc, specs: in_ctx }]
        }
        "C06" => {
            let mk = |beta: &[char; 4], n: usize| Group {
                plan: with(plan("C06", Proj::Locs, if q { 5 } else { 6 }, 1), |p| {
                    p.alphabet = beta.to_vec();
                    p.ctors = vec![CTOR_NEW_WITH_STATE, CTOR_FROM_ITER_WITH_STATE];
                }),
                specs: wide_family(beta, n),
            };
            let mut g = vec![mk(&BETA1, if q { 10 } else { 14 }), mk(&BETA2, if q { 7 } else { 14 }), mk(&BETA3, if q { 7 } else { 14 })];
            // ASCII control: same shapes under the identity binding, with accumulation over switches
            g.push(Group { plan: plan("C06", Proj::Locs, 5, 1), specs: if q { sets_family(6, &[3], false) } else { sets_family(8, &[2, 3, 5], true) } });
            g
        }
        "C07" => {
            let mut p = plan("C07", Proj::Errors, if q { 5 } else { 6 }, if q { 1 } else { 2 });
            p.extra_inputs = vec!["c  abc".into(), "  ab".into(), "c ab  ab".into()];
            let mut extra: Vec<Spec> = after_accept_family().into_iter().step_by(if q { 9 } else { 2 }).collect();
            extra.extend(ctx_family(false).into_iter().filter(|s| s.family == "ctx_past"));
            // make the first rule fallible so that Custom errors are in play as well
            for s in extra.iter_mut() {
                s.sets[0].rules[0].kind = Kind::Fallible(D_RETURN);
            }
            let pe = plan("C07", Proj::Errors, 5, 1);
            let pst = plan("C07", Proj::Errors, 6, 0);
            vec![Group { plan: p, specs: errors_family() }, Group { plan: pe, specs: extra }, Group { plan: pst, specs: stale_family() }]
        }
        "C08" => {
            let mut specs = if q { sets_family(6, &[2, 3, 5], false) } else { sets_family(10, &[0, 2, 3, 5, 6, 9], true) };
            specs.extend(eoi_family().into_iter().filter(|s| s.sets.len() > 1));
            // the quoted case: Init{'a','s'->switch R} R{'b'} on "sxaab"
            specs.push(Spec::multi(vec![vec![ret(ch('a')), rule(ch('s'), Kind::Act(d_switch(1)))], vec![ret(ch('b'))]], "recovery_quoted"));
            // direct failures in loop / join states that no accepting state precedes
            specs.extend(cold_loop_family());
            // a context-only lexeme failing in a second rule set (also right before the end of input, with `$` in Init)
            let cx = |re: Re, c: Re| Rule { re, ctx: Some(c), kind: Kind::Act(D_RETURN) };
            specs.push(Spec::multi(vec![vec![rule(ch('c'), Kind::Act(d_switch_return(1))), ret(Re::Eoi), ret(ch('b'))], vec![cx(ch('a'), ch('b')), rule(ch('c'), Kind::Act(d_switch_return(0)))]], "recovery_ctx"));
            specs.push(Spec::multi(vec![vec![cx(ch('a'), ch('b')), ret(ch('b')), rule(ch('c'), Kind::Act(d_switch_return(1)))], vec![rule(ch('c'), Kind::Act(d_switch_return(0))), cx(ch('a'), ch('a')), ret(ch('b'))]], "recovery_ctx"));
            // a long chain of single-predecessor states in Init / in a later rule set
            specs.push(Spec::multi(vec![vec![ret(st(LONG_KEYWORD)), rule(ch('c'), Kind::Act(d_switch_return(1))), ret(ch('x'))], vec![rule(ch('a'), Kind::Act(d_switch_return(0))), ret(st("bc")), ret(ch('b'))]], "sets_long"));
            let mut p = plan("C08", Proj::Recovery, 5, if q { 1 } else { 2 });
            p.extra_inputs = vec!["sxaab".into(), "sxxaab".into(), "sbxab".into(), LONG_KEYWORD.into(), format!("{}bc", &LONG_KEYWORD[..33]), format!("c{}a", &LONG_KEYWORD[..36])];
            vec![Group { plan: p, specs }]
        }
        "C09" => {
            let mut specs = regress_single();
            specs.extend(pair_family());
            specs.extend(kinds_family(false));
            specs.extend(selected("pair3_a12", if q { 60 } else { 400 }));
            specs.push(Spec::single(vec![ret(Re::Any)], "any_only"));
            specs.push(Spec::single(vec![rule(Re::Any, Kind::Skip)], "any_only"));
            specs.push(Spec::single(vec![rule(plus(Re::Any), Kind::Act(D_CONTINUE))], "any_only"));
            let mut p = plan("C09", Proj::Progress, 5, 1);
            // actions look at `peek()`, `match_()` and `match_loc()`: also through an iterator-based constructor
            p.ctors = vec![CTOR_NEW_WITH_STATE, CTOR_FROM_ITER_WITH_STATE];
            let long = if q { 20_000 } else { 30_000 };
            p.extra_inputs = vec![
                "a".repeat(long),
                "x".repeat(long),
                "ab".repeat(long / 2),
                "abc".repeat(long / 3) + "x",
                "\u{10FFFF}\u{0}\u{D7FF}\u{E000}".repeat(50),
                "aab".repeat(long / 3) + "aax",
            ];
            let g2 = Group { plan: with(plan("C09", Proj::Progress, if q { 4 } else { 5 }, 2), |p| p.extra_inputs = vec!["ab".repeat(5000)]), specs: sets_family(6, &[3], false) };
            let g3 = Group { plan: with(plan("C09", Proj::Progress, if q { 4 } else { 5 }, 1), |p| p.alphabet = vec!['a', 'b', 'c']), specs: eoi_family() };
            let mut sh = stale_family();
            sh.extend(after_accept_family().into_iter().step_by(if q { 9 } else { 2 }));
            let g4 = Group { plan: plan("C09", Proj::Progress, 6, 0), specs: sh };
            vec![Group { plan: p, specs }, g2, g3, g4]
        }
        "C10" => {
            let mut shapes: Vec<Spec> = after_accept_family().into_iter().step_by(if q { 9 } else { 2 }).collect();
            shapes.extend(stale_family());
            shapes.extend(eoi_family().into_iter().filter(|s| s.family == "eoi1"));
            // `re` next to `re $` with every action kind on both
            for k0 in KINDS7 {
                for k1 in [Kind::Act(D_RETURN), Kind::Skip, Kind::Act(D_CONTINUE), Kind::Fallible(D_RETURN)] {
                    shapes.push(Spec::single(vec![rule(st("ab"), k0), rule(cat(st("ab"), Re::Eoi), k1), ret(ch('a')), ret(ch('c'))], "eoi_kinds"));
                }
            }
            // switch / switch_and_return: rule sets (incl. the pooled shapes as a second rule set)
            let sets: Vec<Spec> = groups_core("C03", tier).remove(0).specs.into_iter().step_by(if q { 3 } else { 1 }).collect();
            vec![
                Group { plan: plan("C10", Proj::Full, if q { 5 } else { 6 }, 2), specs: kinds_family(true) },
                Group { plan: with(plan("C10", Proj::Full, 5, 1), |p| p.alphabet = vec!['a', 'b', 'c', 'x']), specs: shapes },
                Group { plan: plan("C10", Proj::Full, if q { 4 } else { 5 }, 1), specs: sets },
            ]
        }
        "C14" => {
            let mut specs = regress_single();
            specs.extend(pair_family());
            specs.extend(selected("pair3_a12", if q { 100 } else { usize::MAX }));
            let mut p = plan("C14", Proj::Ctors, if q { 5 } else { 6 }, 1);
            p.ctors = vec![CTOR_NEW_WITH_STATE, CTOR_FROM_ITER_WITH_STATE, CTOR_NEW, CTOR_FROM_ITER, CTOR_FROM_CHARS_ITER];
            let mut p2 = p.clone();
            p2.max_len = if q { 4 } else { 5 };
            let mut p3 = p.clone();
            p3.alphabet = vec!['a', 'b', 'c'];
            p3.max_len = if q { 4 } else { 5 };
            let mut p4 = p.clone();
            p4.alphabet = BETA1.to_vec();
            p4.max_len = if q { 4 } else { 5 };
            let mut p5 = p4.clone();
            p5.alphabet = BETA2.to_vec();
            vec![
                Group { plan: p, specs },
                Group { plan: p2, specs: if q { sets_family(6, &[3], false) } else { sets_family(8, &[2, 3, 5], true) } },
                Group { plan: p3, specs: eoi_family() },
                Group { plan: p4, specs: wide_family(&BETA1, if q { 6 } else { 10 }) },
                Group { plan: p5, specs: wide_family(&BETA2, if q { 5 } else { 10 }) },
                // characters an input source might treat specially (byte order mark, NUL, CR)
                Group {
                    plan: {
                        let mut p6 = plan("C14", Proj::Ctors, if q { 4 } else { 5 }, 0);
                        p6.ctors = vec![CTOR_NEW_WITH_STATE, CTOR_FROM_ITER_WITH_STATE, CTOR_NEW, CTOR_FROM_ITER, CTOR_FROM_CHARS_ITER];
                        p6.alphabet = vec!['\u{FEFF}', 'a', '\r', '\0'];
                        p6
                    },
                    specs: vec![
                        Spec::single(vec![ret(Re::Any)], "any_only"),
                        Spec::single(vec![ret(plus(ch('a'))), rule(Re::Any, Kind::Act(D_CONTINUE))], "any_only"),
                        Spec::single(vec![ret(cat(Re::Any, ch('a'))), ret(ch('a')), rule(diff(Re::Any, ch('a')), Kind::Skip)], "any_only"),
                        Spec::single(vec![ret(cat(ch('a'), opt(cat(Re::Any, ch('a'))))), ret(plus(diff(Re::Any, ch('a'))))], "any_only"),
                    ],
                },
            ]
        }
        "C15" => {
            let mut specs = if q { sets_family(6, &[3], false) } else { sets_family(8, &[2, 3, 5], false) };
            specs.extend(eoi_family().into_iter().step_by(if q { 5 } else { 2 }));
            specs.extend(regress_single());
            specs.extend(errors_family().into_iter().step_by(if q { 17 } else { 5 }));
            let mut p = plan("C15", Proj::Clones, if q { 4 } else { 5 }, if q { 0 } else { 1 });
            p.check_probe_neutral = false;
            p.clone_depth = if q { 2 } else { 3 };
            let mut pb = p.clone();
            pb.alphabet = vec!['A', 'b', 'Z', ' '];
            pb.max_len = if q { 4 } else { 5 };
            let tables = vec![
                Spec::single(vec![ret(plus(builtin("uppercase"))), ret(plus(builtin("lowercase"))), rule(ch(' '), Kind::Skip)], "two_tables"),
                Spec::single(vec![ret(plus(builtin("ascii_punctuation"))), Rule { re: builtin("numeric"), ctx: Some(builtin("uppercase")), kind: Kind::Act(D_RETURN) }, ret(Re::Any)], "two_tables"),
                Spec::multi(vec![vec![rule(plus(builtin("uppercase")), Kind::Act(d_switch_return(1))), ret(Re::Any)], vec![rule(plus(builtin("lowercase")), Kind::Act(d_switch_return(0))), ret(ch(' '))]], "two_tables"),
            ];
            // wide, ambiguous-width and zero-width characters (location bookkeeping is per lexer value)
            let mut pw = p.clone();
            pw.alphabet = BETA2.to_vec();
            pw.max_len = if q { 3 } else { 4 };
            let mut pw1 = pw.clone();
            pw1.alphabet = BETA1.to_vec();
            vec![
                Group { plan: p, specs },
                Group { plan: pb, specs: tables },
                Group { plan: pw, specs: wide_family(&BETA2, if q { 4 } else { 8 }) },
                Group { plan: pw1, specs: wide_family(&BETA1, if q { 3 } else { 8 }) },
            ]
        }
        "C13" => {
            // three generated membership-test shapes per built-in: per-range arms (`$$n`), guard
            // chain / binary-search table (`$$n 'x'`), table inside a right-context function
            let mut specs = vec![];
            let simple = |re: Re| Spec::single(vec![rule(re, Kind::Simple)], "builtin");
            for n in crate::builtins::builtin_names() {
                specs.push(simple(builtin(n)));
                specs.push(simple(cat(builtin(n), ch('x'))));
                specs.push(Spec::single(vec![Rule { re: ch('a'), ctx: Some(builtin(n)), kind: Kind::Simple }], "builtin_ctx"));
            }
            for (a, b) in [("alphabetic", "numeric"), ("lowercase", "uppercase"), ("XID_Continue", "XID_Start"), ("ascii_graphic", "ascii_alphanumeric")] {
                specs.push(simple(cat(alt(builtin(a), builtin(b)), ch('x'))));
                specs.push(simple(cat(diff(builtin(a), builtin(b)), ch('x'))));
                specs.push(simple(diff(builtin(b), builtin(a))));
            }
            specs.push(simple(cat(diff(builtin("alphabetic"), set(&[('a', 'z')])), ch('x'))));
            specs.push(simple(cat(diff(Re::Any, builtin("alphanumeric")), ch('x'))));
            // small classes padded with disjoint singletons to force a table
            specs.push(simple(cat(set(&[('0', '9'), ('b', 'b'), ('d', 'd'), ('f', 'f'), ('h', 'h'), ('j', 'j'), ('l', 'l'), ('n', 'n'), ('p', 'p'), ('r', 'r'), ('t', 't')]), ch('x'))));
            // several built-ins as separate rules: the classes are split against each other
            let multi = |names: &[&str]| Spec::single(names.iter().map(|n| rule(if *n == "_" { Re::Any } else { builtin(n) }, Kind::Simple)).collect(), "builtin_multi");
            specs.push(multi(&["lowercase", "alphabetic", "_"]));
            specs.push(multi(&["ascii_digit", "numeric", "alphanumeric", "XID_Continue"]));
            specs.push(multi(&["uppercase", "XID_Start", "whitespace", "control"]));
            specs.push(multi(&["ascii_hexdigit", "ascii_alphabetic", "ascii_graphic", "ascii", "alphabetic"]));
            // a union inside a difference, in both orders
            for (a, b2) in [("alphabetic", "numeric"), ("numeric", "alphabetic"), ("uppercase", "ascii_digit"), ("XID_Start", "numeric")] {
                specs.push(simple(cat(diff(alt(builtin(a), builtin(b2)), set(&[('a', 'z')])), ch('x'))));
                specs.push(simple(diff(alt(builtin(a), builtin(b2)), builtin("ascii_alphanumeric"))));
            }
            // chains of `#` (left-associative)
            specs.push(simple(diff(diff(builtin("alphanumeric"), builtin("alphabetic")), builtin("ascii_digit"))));
            specs.push(simple(cat(diff(diff(builtin("alphabetic"), builtin("lowercase")), builtin("uppercase")), ch('x'))));
            specs.push(simple(cat(diff(diff(builtin("ascii_alphanumeric"), builtin("ascii_digit")), builtin("ascii_uppercase")), ch('x'))));
            // two search tables in one lexer, one a prefix of / contained in the other (each behind its own first character)
            let astral = set(&[('\u{10000}', '\u{10FFFF}')]);
            let pre = |p: char, c: Re| rule(cat(cat(ch(p), c), ch('x')), Kind::Simple);
            for n in ["alphabetic", "lowercase", "numeric", "XID_Continue"] {
                specs.push(Spec::single(vec![pre('1', builtin(n)), pre('2', diff(builtin(n), astral.clone()))], "builtin_tables"));
                specs.push(Spec::single(vec![pre('1', diff(builtin(n), astral.clone())), pre('2', builtin(n)), pre('3', diff(builtin(n), set(&[('\u{0}', '\u{FFFF}')])))], "builtin_tables"));
            }
            specs.push(Spec::single(vec![pre('1', builtin("alphanumeric")), pre('2', builtin("alphabetic")), pre('3', builtin("XID_Start")), pre('4', builtin("lowercase"))], "builtin_tables"));
            // a class of many ranges beside string rules that start inside its first / a middle / its last range
            for n in crate::builtins::builtin_names() {
                let s = crate::builtins::builtin_set(n).unwrap();
                if s.len() <= 8 {
                    continue;
                }
                let mut decoys: Vec<u32> = vec![];
                for (lo, hi) in [s[0], s[s.len() / 2], s[s.len() - 2], s[s.len() - 1]] {
                    if hi > lo {
                        decoys.push(hi);
                    }
                    if hi > lo + 1 {
                        decoys.push(lo + 1);
                    }
                }
                decoys.sort();
                decoys.dedup();
                let mut rules: Vec<Rule> = decoys.iter().filter_map(|c| char::from_u32(*c)).map(|c| rule(st(&format!("{c}{c}")), Kind::Simple)).collect();
                if rules.is_empty() {
                    continue;
                }
                rules.push(rule(plus(builtin(n)), Kind::Simple));
                specs.push(Spec::single(rules, "builtin_decoys"));
            }
            // a class rule under a context that cannot hold at the end of input, in front of overlapping class rules
            for (a, rest) in [("alphabetic", vec!["uppercase", "lowercase", "alphabetic"]), ("alphanumeric", vec!["numeric", "ascii_alphabetic", "alphabetic", "alphanumeric"]), ("XID_Continue", vec!["XID_Start", "ascii_digit"])] {
                let mut rules = vec![Rule { re: builtin(a), ctx: Some(ch('=')), kind: Kind::Simple }];
                rules.extend(rest.iter().map(|n| rule(builtin(n), Kind::Simple)));
                specs.push(Spec::single(rules, "builtin_ctx_multi"));
            }
            let mut p = plan("C13", Proj::ClassSweep, 0, 0);
            p.sweep_all = true;
            p.check_probe_neutral = false;
            let _ = q;
            vec![Group { plan: p, specs }]
        }
        "C12" => {
            // dedicated shapes for "the output compiles": right contexts of every shape, sets that
            // repeat a character, built-ins in every position, many rules, chains, several rule sets
            let mut specs: Vec<Spec> = ctx_family(!q).into_iter().step_by(if q { 4 } else { 1 }).collect();
            specs.extend(stress_family().into_iter().filter(|s| s.family != "chain_long"));
            specs.extend(ctx_fallback_family());
            specs.extend(fold_family().into_iter().step_by(if q { 6 } else { 2 }));
            specs.extend(sets_family(6, &[2, 3, 5], true).into_iter().step_by(if q { 7 } else { 2 }));
            specs.extend(eoi_family().into_iter().step_by(if q { 9 } else { 3 }));
            specs.extend(kinds_family(false).into_iter().step_by(if q { 13 } else { 3 }));
            for g in groups("C16", tier) {
                specs.extend(g.specs);
            }
            let mut p = plan("C12", Proj::Full, if q { 3 } else { 4 }, 0);
            p.check_probe_neutral = false;
            vec![Group { plan: p, specs }]
        }
        "C16" => {
            // scoping (lives in lib.rs) and "`$var` stands for its regex as a unit"
            let mut specs = vec![];
            let lets = |v: &[(&str, Re)]| -> Vec<(String, Re)> { v.iter().map(|(n, r)| (n.to_string(), r.clone())).collect() };
            // a variable is a unit under every operator
            let bodies = [alt(ch('a'), ch('b')), cat(ch('a'), ch('b')), set(&[('a', 'c')]), plus(ch('a')), cat(ch('a'), opt(ch('b')))];
            for (bi, b) in bodies.iter().enumerate() {
                let class_like = bi == 0 || bi == 2;
                let mut uses = vec![cat(var("v"), ch('c')), cat(ch('c'), var("v")), star(var("v")), plus(var("v")), alt(ch('c'), var("v")), cat(var("v"), var("v")), opt(cat(var("v"), ch('c')))];
                if class_like {
                    uses.push(diff(var("v"), ch('b')));
                    uses.push(diff(set(&[('a', 'c')]), var("v")));
                }
                for u in uses {
                    if u.subst(&[("v".to_string(), b.clone())].into_iter().collect()).nullable_syn() {
                        // a rule must not match the empty string: keep it non-nullable
                        let mut s = Spec::single(vec![ret(cat(u, ch('x'))), ret(set(&[('a', 'c')]))], "let_unit");
                        s.lets = lets(&[("v", b.clone())]);
                        specs.push(s);
                    } else {
                        let mut s = Spec::single(vec![ret(u), ret(set(&[('a', 'c')]))], "let_unit");
                        s.lets = lets(&[("v", b.clone())]);
                        specs.push(s);
                    }
                }
            }
            // class-valued variables with several pieces under `#` (grouped, named and single-set printings)
            for (l, r) in [(alt(set(&[('a', 'b')]), set(&[('d', 'g')])), set(&[('b', 'e')])), (set(&[('a', 'c'), ('e', 'g')]), set(&[('b', 'f')]))] {
                let mut s1 = Spec::single(vec![ret(cat(diff(var("v"), r.clone()), ch('x'))), ret(set(&[('a', 'g')]))], "let_class");
                s1.lets = lets(&[("v", l.clone())]);
                specs.push(s1);
                specs.push(Spec::single(vec![ret(cat(diff(l.clone(), r.clone()), ch('x'))), ret(set(&[('a', 'g')]))], "let_class"));
                let mut s3 = Spec::single(vec![ret(cat(diff(var("v"), var("w")), ch('x'))), ret(set(&[('a', 'g')]))], "let_class");
                s3.lets = lets(&[("v", l.clone()), ("w", r.clone())]);
                specs.push(s3);
            }
            {
                let nested = set(&[('a', 'g'), ('c', 'c'), ('b', 'b')]);
                let mut s1 = Spec::single(vec![ret(plus(diff(var("v"), ch('x')))), ret(ch('x'))], "let_class");
                s1.lets = lets(&[("v", nested.clone())]);
                specs.push(s1);
                specs.push(Spec::single(vec![ret(plus(diff(nested.clone(), ch('x')))), ret(ch('x'))], "let_class"));
                let tri = alt(alt(cat(ch('b'), ch('x')), cat(set(&[('a', 'c')]), ch('a'))), cat(Re::Any, ch('c')));
                specs.push(Spec::single(vec![ret(tri.clone())], "let_class"));
                let mut s2 = Spec::single(vec![ret(alt(alt(var("p"), var("q")), var("r")))], "let_class");
                s2.lets = lets(&[("p", cat(ch('b'), ch('x'))), ("q", cat(set(&[('a', 'c')]), ch('a'))), ("r", cat(Re::Any, ch('c')))]);
                specs.push(s2);
            }
            // variables named like built-in classes (`$lowercase` is the variable, `$$lowercase` the class),
            // at top level and local to a rule set
            {
                let mut s = Spec::single(vec![ret(plus(var("lowercase"))), ret(set(&[('a', 'c')]))], "let_builtin_name");
                s.lets = lets(&[("lowercase", set(&[('a', 'a'), ('x', 'x')]))]);
                specs.push(s);
                let mut s = Spec::single(vec![ret(plus(diff(builtin("ascii_lowercase"), var("ascii_lowercase")))), ret(plus(var("ascii_lowercase")))], "let_builtin_name");
                s.lets = lets(&[("ascii_lowercase", set(&[('b', 'c')]))]);
                specs.push(s);
                specs.push(Spec {
                    lets: lets(&[("alphabetic", ch('c'))]),
                    sets: vec![
                        RuleSet { lets: lets(&[("numeric", st("ab"))]), rules: vec![rule(var("numeric"), Kind::Act(d_switch_return(1))), ret(plus(var("alphabetic"))), ret(set(&[('a', 'b')]))] },
                        RuleSet { lets: lets(&[("numeric", set(&[('a', 'b')]))]), rules: vec![rule(plus(var("numeric")), Kind::Act(d_switch_return(0))), ret(var("alphabetic"))] },
                    ],
                    named: true,
                    decl_order: vec![],
                    family: "let_builtin_name",
                    set_names: vec![],
                });
                // strings of one character (also outside ASCII) are strings
                specs.push(Spec::single(vec![ret(cat(st("a"), plus(st("b")))), ret(st("c")), ret(ch('a'))], "one_char_string"));
            }
            // a class-valued variable inside a context, beside a character it contains
            for c in [alt(ch('a'), cat(var("lower"), ch('x'))), alt(cat(var("lower"), ch('x')), ch('b')), cat(alt(ch('b'), var("lower")), ch('a'))] {
                let mut s = Spec::single(vec![Rule { re: ch('x'), ctx: Some(c), kind: Kind::Act(D_RETURN) }, ret(set(&[('a', 'c'), ('x', 'x')]))], "let_ctx_class");
                s.lets = lets(&[("lower", set(&[('a', 'c')]))]);
                specs.push(s);
            }
            // a let that refers to an earlier let; variables in right contexts
            let mut s = Spec::single(vec![ret(cat(var("w"), ch('c'))), Rule { re: var("d"), ctx: Some(var("w")), kind: Kind::Act(D_RETURN) }, ret(set(&[('a', 'c')]))], "let_chain");
            s.lets = lets(&[("d", set(&[('a', 'b')])), ("w", plus(var("d")))]);
            specs.push(s);
            // top-level lets are visible in every later rule set; rule-set lets only there, and the
            // same local name may be bound differently in two rule sets
            let mk = |k0: Re, k1: Re, k2: Option<Re>| -> Spec {
                let mut sets = vec![
                    RuleSet { lets: lets(&[("k", k0)]), rules: vec![rule(cat(var("k"), var("t")), Kind::Act(d_switch_return(1))), ret(var("k")), ret(var("t"))] },
                    RuleSet { lets: lets(&[("k", k1)]), rules: vec![rule(plus(var("k")), Kind::Act(d_switch_return(0))), ret(var("t"))] },
                ];
                if let Some(k2) = k2 {
                    sets[1].rules[0].kind = Kind::Act(d_switch_return(2));
                    sets.push(RuleSet { lets: lets(&[("j", k2)]), rules: vec![rule(cat(var("j"), opt(var("t"))), Kind::Act(d_switch_return(0))), ret(ch('a'))] });
                }
                Spec { lets: lets(&[("t", ch('c'))]), sets, named: true, decl_order: vec![], family: "let_scope", set_names: vec![] }
            };
            for (s0, s1) in [(ch('b'), ch('c')), (set(&[('b', 'c')]), Re::Eoi), (st("bc"), ch('b'))] {
                specs.push(Spec {
                    lets: lets(&[("t", ch('c'))]),
                    sets: vec![
                        RuleSet { lets: lets(&[("stop", s0)]), rules: vec![Rule { re: ch('a'), ctx: Some(var("stop")), kind: Kind::Act(d_switch_return(1)) }, ret(set(&[('a', 'c')]))] },
                        RuleSet { lets: lets(&[("stop", s1)]), rules: vec![Rule { re: ch('a'), ctx: Some(var("stop")), kind: Kind::Act(d_switch_return(0)) }, ret(set(&[('a', 'c')]))] },
                    ],
                    named: true,
                    decl_order: vec![],
                    family: "let_scope_ctx",
                    set_names: vec![],
                });
            }
            // the same without a catch-all rule: a failing context is an InvalidToken
            for (s0, s1) in [(ch('b'), ch('c')), (set(&[('b', 'c')]), Re::Eoi), (st("bc"), ch('b')), (ch('c'), set(&[('a', 'b')]))] {
                specs.push(Spec {
                    lets: vec![],
                    sets: vec![
                        RuleSet { lets: lets(&[("stop", s0)]), rules: vec![Rule { re: plus(ch('a')), ctx: Some(var("stop")), kind: Kind::Act(D_RETURN) }, ret(ch('b')), rule(ch('c'), Kind::Act(d_switch_return(1)))] },
                        RuleSet { lets: lets(&[("stop", s1)]), rules: vec![rule(ch('c'), Kind::Act(d_switch_return(0))), Rule { re: plus(ch('a')), ctx: Some(ch('x')), kind: Kind::Act(D_RETURN) }, Rule { re: plus(ch('a')), ctx: Some(var("stop")), kind: Kind::Act(D_RETURN) }, ret(ch('b'))] },
                    ],
                    named: true,
                    decl_order: vec![],
                    family: "let_scope_ctx",
                    set_names: vec![],
                });
            }
            specs.push(mk(ch('a'), ch('b'), None));
            specs.push(mk(st("ab"), ch('a'), None));
            specs.push(mk(ch('a'), st("ab"), Some(set(&[('a', 'b')]))));
            specs.push(mk(set(&[('a', 'b')]), alt(ch('a'), st("bc")), Some(st("ba"))));
            vec![Group { plan: plan("C16", Proj::Full, if q { 5 } else { 6 }, 1), specs }]
        }
        "C11" => {
            let mut specs = vec![];
            let d = |a: char, b: char| set(&[(a, b)]);
            let classes: Vec<Re> = vec![
                diff(set(&[('0', '5'), ('7', '9')]), d('0', '8')),
                diff(Re::Any, d('\u{0}', '\u{D7FF}')),
                diff(Re::Any, d('\u{E000}', '\u{10FFFF}')),
                diff(d('\u{D000}', '\u{F000}'), d('\u{D000}', '\u{D7FF}')),
                alt(d('\u{D7FC}', '\u{D7FF}'), d('\u{D7FE}', '\u{E001}')),
                diff(diff(Re::Any, d('b', 'y')), ch('a')),
                diff(diff(d('a', 'z'), d('c', 'e')), d('d', 'x')),
                diff(builtin("alphabetic"), d('a', 'z')),
                diff(alt(builtin("ascii_digit"), d('a', 'f')), ch('c')),
                set(&[('a', 'a'), ('a', 'a')]),
                set(&[('a', 'c'), ('b', 'b'), ('b', 'd'), ('a', 'a')]),
                diff(set(&[('a', 'z'), ('c', 'e')]), ch('x')),
                diff(Re::Any, set(&[('0', '9'), ('2', '3'), ('5', '5')])),
                alt(set(&[('a', 'h'), ('c', 'd')]), ch('k')),
                alt(d('a', 'c'), alt(ch('b'), d('b', 'e'))),
                diff(d('a', 'e'), d('a', 'c')),
                diff(d('a', 'e'), d('c', 'e')),
                diff(set(&[('a', 'b'), ('d', 'e'), ('g', 'h')]), d('b', 'g')),
                diff(set(&[('a', 'b'), ('d', 'e'), ('g', 'h')]), d('d', 'e')),
                diff(set(&[('a', 'b'), ('d', 'e'), ('g', 'h')]), set(&[('a', 'a'), ('e', 'e'), ('g', 'h')])),
                diff(d('\u{10FFF0}', '\u{10FFFF}'), d('\u{10FFF8}', '\u{10FFFE}')),
                diff(d('\u{0}', '\u{10}'), alt(ch('\u{0}'), d('\u{5}', '\u{10}'))),
                alt(diff(Re::Any, d('\u{1}', '\u{10FFFE}')), ch('m')),
            ];
            // a class of characters and more than MAX_GUARD_SIZE ranges in front of a further state
            specs.push(Spec::single(vec![rule(cat(alt(alt(builtin("alphabetic"), ch('_')), ch('$')), ch('x')), Kind::Simple)], "class_then"));
            specs.push(Spec::single(
                vec![rule(cat(set(&[('0', '9'), ('a', 'b'), ('d', 'e'), ('g', 'h'), ('j', 'k'), ('m', 'n'), ('p', 'q'), ('s', 't'), ('v', 'w'), ('y', 'z'), ('_', '_'), ('.', '.'), ('A', 'A')]), ch('x')), Kind::Simple)],
                "class_then",
            ));
            for c in classes {
                specs.push(Spec::single(vec![rule(c.clone(), Kind::Simple)], "class"));
                specs.push(Spec::single(vec![rule(cat(c.clone(), ch('x')), Kind::Simple)], "class_then"));
                if !q {
                    specs.push(Spec::single(vec![Rule { re: ch('a'), ctx: Some(c), kind: Kind::Simple }], "class_ctx"));
                }
            }
            let mut p = plan("C11", Proj::ClassSweep, 0, 0);
            p.check_probe_neutral = false;
            p.sweep_all = !q;
            // contexts whose alternatives are overlapping classes (not a single class: explored on strings)
            let ctxs = vec![
                Spec::single(vec![Rule { re: ch('a'), ctx: Some(alt(set(&[('b', 'b'), ('e', 'e')]), cat(set(&[('a', 'f')]), ch('x')))), kind: Kind::Act(D_RETURN) }, ret(Re::Any)], "class_ctx_alt"),
                Spec::single(vec![Rule { re: ch('a'), ctx: Some(alt(ch('e'), cat(diff(set(&[('a', 'z')]), set(&[('g', 'z')])), ch('x')))), kind: Kind::Act(D_RETURN) }, ret(Re::Any)], "class_ctx_alt"),
                Spec::single(vec![Rule { re: ch('a'), ctx: Some(alt(cat(diff(Re::Any, ch('b')), ch('x')), set(&[('a', 'b')]))), kind: Kind::Act(D_RETURN) }, ret(Re::Any)], "class_ctx_alt"),
            ];
            let mut pc = plan("C11", Proj::Full, 4, 0);
            pc.alphabet = vec!['a', 'b', 'e', 'x'];
            let mut pf = plan("C11", Proj::Full, 3, 0);
            pf.alphabet = FOLD_ALPHABET.to_vec();
            let mut pd = plan("C11", Proj::Full, 4, 0);
            pd.alphabet = ABCX.to_vec();
            vec![Group { plan: p, specs }, Group { plan: pc, specs: ctxs }, Group { plan: pf, specs: fold_family().into_iter().step_by(if q { 2 } else { 1 }).collect() }, Group { plan: pd, specs: ctx_fallback_family() }]
        }
        _ => vec![],
    }
}

// ------------------------------------------------------------------ P-scale families (indexable)

/// Representatives of a P family chosen by automaton shape signature (one definition per
/// distinct signature, in enumeration order; computed by `pexp signatures <family>` and committed
/// under `src/sel/`, so that generator and batch binaries agree).
pub fn selected(family: &str, limit: usize) -> Vec<Spec> {
    let txt = match family {
        "pair3_a12" => include_str!("sel/pair3_a12.txt"),
        "pair3_a6" => include_str!("sel/pair3_a6.txt"),
        "single4_a12" => include_str!("sel/single4_a12.txt"),
        "single5_a6" => include_str!("sel/single5_a6.txt"),
        "triple2_a6" => include_str!("sel/triple2_a6.txt"),
        "eoi2_a6" => include_str!("sel/eoi2_a6.txt"),
        _ => panic!("no selection for {family}"),
    };
    let fam = p_family(family).unwrap();
    txt.split_whitespace().filter_map(|i| i.parse::<usize>().ok()).filter(|i| *i < fam.len).take(limit).map(|i| (fam.get)(i)).collect()
}

pub struct PFamily {
    pub len: usize,
    pub get: Box<dyn Fn(usize) -> Spec + Send + Sync>,
}

fn tuples(rs: Vec<Rule>, n: usize, fam: &'static str) -> PFamily {
    let m = rs.len();
    PFamily {
        len: m.pow(n as u32),
        get: Box::new(move |mut i| {
            let mut rules = vec![];
            for _ in 0..n {
                rules.push(rs[i % m].clone());
                i /= m;
            }
            rules.reverse();
            Spec::single(rules, fam)
        }),
    }
}

fn from_vec(v: Vec<Spec>) -> PFamily {
    PFamily { len: v.len(), get: Box::new(move |i| v[i].clone()) }
}

/// Families explored in-process by P (automaton level, all strings).
pub fn p_family(name: &str) -> Option<PFamily> {
    let a6 = atoms6();
    let a12 = atoms12();
    let rets = |v: Vec<Re>| -> Vec<Rule> { v.into_iter().map(ret).collect() };
    Some(match name {
        "single3_a6" => tuples(rets(re_plus(3, &a6)), 1, "single3_a6"),
        "single4_a6" => tuples(rets(re_plus(4, &a6)), 1, "single4_a6"),
        "single4_a12" => tuples(rets(re_plus(4, &a12)), 1, "single4_a12"),
        "single5_a6" => tuples(rets(re_plus(5, &a6)), 1, "single5_a6"),
        "single5_a12" => tuples(rets(re_plus(5, &a12)), 1, "single5_a12"),
        "pair2_a12" => tuples(rets(re_plus(2, &a12)), 2, "pair2_a12"),
        "pair3_a6" => tuples(rets(re_plus(3, &a6)), 2, "pair3_a6"),
        "pair3_a12" => tuples(rets(re_plus(3, &a12)), 2, "pair3_a12"),
        "pair4_a6" => tuples(rets(re_plus(4, &a6)), 2, "pair4_a6"),
        "pair4_a12" => tuples(rets(re_plus(4, &a12)), 2, "pair4_a12"),
        "triple2_a6" => tuples(rets(re_plus(2, &a6)), 3, "triple2_a6"),
        "triple2_a12" => tuples(rets(re_plus(2, &a12)), 3, "triple2_a12"),
        "triple3_a6" => tuples(rets(re_plus(3, &a6)), 3, "triple3_a6"),
        // `$`-tails: pairs over RE+(2) ∪ { r $ } ∪ { $ }
        "eoi2_a6" | "eoi3_a6" => {
            let k = if name == "eoi2_a6" { 2 } else { 3 };
            let base = re_plus(k, &a6);
            let mut all = base.clone();
            for r in &base {
                all.push(cat(r.clone(), Re::Eoi));
            }
            for r in base.iter().take(if k == 2 { 12 } else { 24 }) {
                all.push(cat(r.clone(), opt(Re::Eoi)));
            }
            all.push(Re::Eoi);
            tuples(rets(all), 2, "eoi")
        }
        // one guarded rule `r > c` beside a context-free rule, in both priority orders
        "ctx2_3" | "ctx2_2" | "ctx3_3" => {
            let (k, j) = match name {
                "ctx2_2" => (2, 2),
                "ctx2_3" => (2, 3),
                _ => (3, 3),
            };
            let rs = re_plus(k, &a6);
            let cs = re_ctx(j, &a6);
            let others = vec![ret(set(&[('a', 'c')])), ret(st("ab")), ret(plus(ch('a'))), ret(st("abc")), ret(cat(plus(ch('a')), st("bc")))];
            let (nr, nc, no) = (rs.len(), cs.len(), others.len());
            PFamily {
                len: nr * nc * no * 2,
                get: Box::new(move |i| {
                    let first = i % 2 == 0;
                    let i = i / 2;
                    let g = Rule { re: rs[i % nr].clone(), ctx: Some(cs[(i / nr) % nc].clone()), kind: Kind::Act(D_RETURN) };
                    let o = others[(i / nr / nc) % no].clone();
                    Spec::single(if first { vec![g, o] } else { vec![o, g] }, "ctx")
                }),
            }
        }
        // two guarded rules over the same lexeme
        "ctx_pair" => {
            let cs = re_ctx(2, &a6);
            let nc = cs.len();
            PFamily {
                len: nc * nc,
                get: Box::new(move |i| {
                    Spec::single(
                        vec![
                            Rule { re: plus(ch('a')), ctx: Some(cs[i % nc].clone()), kind: Kind::Act(D_RETURN) },
                            Rule { re: ch('a'), ctx: Some(cs[i / nc].clone()), kind: Kind::Act(D_RETURN) },
                            ret(set(&[('a', 'c')])),
                        ],
                        "ctx_pair",
                    )
                }),
            }
        }
        "rsets_quick" => from_vec(sets_family(6, &[2, 3, 5], true)),
        "rsets" => from_vec(sets_family(10, &[0, 2, 3, 5, 6, 9], true)),
        // every rule set drawn from an enumerated menu: all sequences of 2 and 3 rule sets over
        // single-rule and two-rule sets of RE+(2, A6)
        "rsets_enum" => {
            let rs = re_plus(2, &a6);
            let n = rs.len();
            // rule-set menu: {} , {r}, {r, 'a'} for r in RE+(2)
            let mut menu: Vec<Vec<Rule>> = vec![vec![]];
            for r in &rs {
                menu.push(vec![ret(r.clone())]);
            }
            for r in rs.iter().take(n / 2) {
                menu.push(vec![ret(r.clone()), ret(ch('a'))]);
            }
            let m = menu.len();
            PFamily {
                len: (m - 1) * m * 4,
                get: Box::new(move |i| {
                    let s0 = 1 + i % (m - 1);
                    let s1 = (i / (m - 1)) % m;
                    let s2 = [0usize, 3, 9, m - 1][(i / (m - 1) / m) % 4];
                    Spec::multi(vec![menu[s0].clone(), menu[s1].clone(), menu[s2].clone()], "rsets_enum")
                }),
            }
        }
        "regress" => from_vec(regress_single()),
        "stress" => from_vec(stress_family()),
        "after_accept" => from_vec(after_accept_family()),
        "alt_rep" => from_vec(alt_rep_family()),
        "stale" => from_vec(stale_family()),
        "ctx_shapes" => from_vec(ctx_family(true)),
        "range_overlap" => from_vec(range_overlap_family()),
        "fold" => from_vec(fold_family()),
        "high" => from_vec(high_family()),
        "diamond" => from_vec(diamond_family()),
        "delimited" => from_vec(delimited_family()),
        // `#` and `|` between classes with several pieces, used inside rules
        "diff_rules" => {
            let atoms = vec![
                ch('b'),
                set(&[('a', 'c')]),
                set(&[('b', 'd')]),
                set(&[('a', 'b'), ('d', 'e')]),
                set(&[('a', 'a'), ('c', 'c'), ('e', 'e')]),
                set(&[('a', 'c'), ('e', 'g')]),
                set(&[('a', 'g')]),
                set(&[('a', 'g'), ('c', 'd'), ('b', 'b')]),
                Re::Any,
            ];
            let mut classes = atoms.clone();
            for a in &atoms {
                for b in &atoms {
                    classes.push(diff(a.clone(), b.clone()));
                    classes.push(alt(a.clone(), b.clone()));
                    classes.push(diff(diff(atoms[6].clone(), a.clone()), b.clone()));
                    classes.push(diff(alt(a.clone(), b.clone()), atoms[2].clone()));
                }
            }
            let env = Env::new();
            let mut v = vec![];
            for c in classes {
                if crate::iset::scalar_only(&class_of(&c, &env).unwrap()).is_empty() {
                    continue;
                }
                v.push(Spec::single(vec![ret(c.clone())], "diff_rules"));
                v.push(Spec::single(vec![ret(cat(plus(c.clone()), ch('c'))), ret(ch('a'))], "diff_rules"));
                v.push(Spec::single(vec![ret(cat(ch('a'), c.clone())), ret(set(&[('a', 'g')]))], "diff_rules"));
            }
            from_vec(v)
        }
        _ => return None,
    })
}
