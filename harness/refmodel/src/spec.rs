//! Lexer definitions as data, and their `lexer!` source text.

use crate::re::{print_min, Env, Re};

pub const D_RETURN: u8 = 0;
pub const D_CONTINUE: u8 = 1;
pub const D_RESET_CONTINUE: u8 = 2;
pub const D_ERR: u8 = 250;
/// `reset_match()` and then `return_` in the same action (the token's span is empty)
pub const D_RESET_RETURN: u8 = 251;
pub const D_DEFAULT: u8 = 255;
pub fn d_switch(k: usize) -> u8 {
    3 + 2 * k as u8
}
pub fn d_switch_return(k: usize) -> u8 {
    4 + 2 * k as u8
}

/// `switch_and_return(set k, Err(..))` in a fallible rule of a lexer with rule sets (elsewhere: `return`)
pub fn d_switch_err(k: usize) -> u8 {
    200 + k as u8
}

pub fn show_decision(d: u8) -> String {
    match d {
        D_RETURN => "return".into(),
        D_CONTINUE => "continue".into(),
        D_RESET_CONTINUE => "reset+continue".into(),
        D_ERR => "err".into(),
        D_RESET_RETURN => "reset+return".into(),
        D_DEFAULT => "default".into(),
        d if d >= 3 && d < 200 && d % 2 == 1 => format!("switch({})", (d - 3) / 2),
        d if d >= 4 && d < 200 => format!("switch_and_return({})", (d - 4) / 2),
        d if d >= 200 && d < 240 => format!("switch_and_return({}, Err)", d - 200),
        d => format!("?{d}"),
    }
}

#[derive(Clone, Copy, Debug, PartialEq, Eq, Hash)]
pub enum Kind {
    /// `re,`
    Skip,
    /// `re = id,`
    Simple,
    /// `re => |l| act(l, id, default)`
    Act(u8),
    /// `re =? |l| act_f(l, id, default)`
    Fallible(u8),
}

#[derive(Clone, Debug, PartialEq, Eq, Hash)]
pub struct Rule {
    pub re: Re,
    pub ctx: Option<Re>,
    pub kind: Kind,
}

pub fn rule(re: Re, kind: Kind) -> Rule {
    Rule { re, ctx: None, kind }
}
pub fn rule_ctx(re: Re, ctx: Re, kind: Kind) -> Rule {
    Rule { re, ctx: Some(ctx), kind }
}

#[derive(Clone, Debug, PartialEq, Eq, Hash, Default)]
pub struct RuleSet {
    pub lets: Vec<(String, Re)>,
    pub rules: Vec<Rule>,
}

#[derive(Clone, Debug, PartialEq, Eq, Hash)]
pub struct Spec {
    /// Top-level `let`s, printed before the first rule.
    pub lets: Vec<(String, Re)>,
    /// `sets[0]` is `Init`; `sets[k]` is printed as `rule R<k> { … }`.
    pub sets: Vec<RuleSet>,
    /// Use the `rule Init { … }` syntax even with one rule set.
    pub named: bool,
    /// Order in which rule sets are printed (a permutation of `1..sets.len()`; `Init` is always
    /// first because lexgen requires it). Empty = natural order.
    pub decl_order: Vec<usize>,
    pub family: &'static str,
    /// Names of the rule sets (empty = `Init`, `R1`, `R2`, …).
    pub set_names: Vec<String>,
}

impl Spec {
    pub fn single(rules: Vec<Rule>, family: &'static str) -> Spec {
        Spec { lets: vec![], sets: vec![RuleSet { lets: vec![], rules }], named: false, decl_order: vec![], family, set_names: vec![] }
    }
    pub fn multi(sets: Vec<Vec<Rule>>, family: &'static str) -> Spec {
        Spec {
            lets: vec![],
            sets: sets.into_iter().map(|rules| RuleSet { lets: vec![], rules }).collect(),
            named: true,
            decl_order: vec![],
            family,
            set_names: vec![],
        }
    }
    pub fn is_named(&self) -> bool {
        self.named || self.sets.len() > 1
    }
    pub fn has_fallible(&self) -> bool {
        self.sets.iter().flat_map(|s| &s.rules).any(|r| matches!(r.kind, Kind::Fallible(_)))
    }
    /// The order rule sets are declared in (indices into `sets`).
    pub fn order(&self) -> Vec<usize> {
        if self.decl_order.is_empty() {
            (0..self.sets.len()).collect()
        } else {
            let mut v = vec![0];
            v.extend(self.decl_order.iter().copied());
            v
        }
    }
    /// Global rule ids (= lexgen's semantic action indices): numbered in declaration order.
    pub fn rule_ids(&self) -> Vec<Vec<usize>> {
        let mut ids: Vec<Vec<usize>> = self.sets.iter().map(|_| vec![]).collect();
        let mut n = 0;
        for si in self.order() {
            for _ in &self.sets[si].rules {
                ids[si].push(n);
                n += 1;
            }
        }
        ids
    }
    pub fn n_rules(&self) -> usize {
        self.sets.iter().map(|s| s.rules.len()).sum()
    }
    pub fn rule_by_id(&self, id: usize) -> (usize, &Rule) {
        let ids = self.rule_ids();
        for (si, set) in self.sets.iter().enumerate() {
            for (ri, r) in set.rules.iter().enumerate() {
                if ids[si][ri] == id {
                    return (si, r);
                }
            }
        }
        panic!("no rule {id}")
    }
    pub fn env_of_set(&self, si: usize) -> Env {
        let mut env = Env::new();
        for (n, r) in &self.lets {
            env.insert(n.clone(), r.clone());
        }
        for (n, r) in &self.sets[si].lets {
            env.insert(n.clone(), r.clone());
        }
        env
    }
    pub fn set_name(&self, si: usize) -> String {
        if let Some(n) = self.set_names.get(si) {
            return n.clone();
        }
        if si == 0 {
            "Init".into()
        } else {
            format!("R{si}")
        }
    }

    /// The body of the `lexer!` invocation (without the header line).
    pub fn print_rules(&self, indent: &str) -> String {
        let mut s = String::new();
        for (n, r) in &self.lets {
            s += &format!("{indent}let {n} = {};\n", print_min(r));
        }
        let ids = self.rule_ids();
        let named = self.is_named();
        for si in self.order() {
            let set = &self.sets[si];
            let ind2 = if named {
                s += &format!("{indent}rule {} {{\n", self.set_name(si));
                format!("{indent}    ")
            } else {
                indent.to_string()
            };
            for (n, r) in &set.lets {
                s += &format!("{ind2}let {n} = {};\n", print_min(r));
            }
            for (ri, r) in set.rules.iter().enumerate() {
                let id = ids[si][ri];
                let lhs = match &r.ctx {
                    None => print_min(&r.re),
                    Some(c) => format!("{} > {}", print_min(&r.re), print_min(c)),
                };
                let rhs = match r.kind {
                    Kind::Skip => ",".to_string(),
                    Kind::Simple => format!(" = {id},"),
                    Kind::Act(d) => format!(" => |l| act(l, {id}, {d}),"),
                    Kind::Fallible(d) => format!(" =? |l| act_f(l, {id}, {d}),"),
                };
                s += &format!("{ind2}{lhs}{rhs}\n");
            }
            if named {
                s += &format!("{indent}}}\n");
            }
        }
        s
    }

    /// A complete module `pub mod m<idx>` holding the lexer `L<idx>` and the harness glue.
    pub fn print_module(&self, idx: usize) -> String {
        let mut s = String::new();
        s += &format!("pub mod m{idx} {{\n    use super::*;\n    lexgen::lexer! {{\n        #[derive(Clone)]\n        pub L{idx}(H) -> usize;\n");
        if self.has_fallible() {
            s += "        type Error = u32;\n";
        }
        s += &self.print_rules("        ");
        s += "    }\n";
        let sets: Vec<String> = (0..self.sets.len()).map(|k| self.set_name(k)).collect();
        let mode = match (self.is_named(), self.has_fallible()) {
            (false, false) => "plain",
            (false, true) => "plain_fallible",
            (true, false) => "named",
            (true, true) => "named_fallible",
        };
        s += &format!("    refmodel::glue!({mode}, L{idx}, L{idx}Rule, [{}]);\n}}\n", sets.join(", "));
        s
    }

    pub fn describe(&self) -> String {
        self.print_rules("").replace('\n', " ").trim().to_string()
    }
}
