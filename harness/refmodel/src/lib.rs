//! Reference model, abstract machine, explorers and families for the lexgen verification harness.
#![allow(clippy::all)]
pub mod builtins;
pub mod deriv;
pub mod dump;
pub mod e2e;
pub mod enumerate;
pub mod families;
pub mod iset;
pub mod machine;
pub mod product;
pub mod re;
pub mod rlexer;
pub mod spec;
pub mod trace;

pub use serde_json;
pub use trace::{Loc, H};
