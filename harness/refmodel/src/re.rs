//! Regex syntax trees (mirrors the README's operator list), printers and class evaluation.

use crate::builtins::builtin_set;
use crate::iset::{self, ISet};
use std::collections::BTreeMap;

#[derive(Clone, Debug, PartialEq, Eq, Hash, PartialOrd, Ord)]
pub enum Re {
    Eoi,
    Char(char),
    Str(String),
    /// `(c, c)` is a single character, otherwise an inclusive range.
    Set(Vec<(char, char)>),
    Any,
    Builtin(String),
    Var(String),
    Star(Box<Re>),
    Plus(Box<Re>),
    Opt(Box<Re>),
    Cat(Box<Re>, Box<Re>),
    Alt(Box<Re>, Box<Re>),
    Diff(Box<Re>, Box<Re>),
}

pub type Env = BTreeMap<String, Re>;

pub fn ch(c: char) -> Re {
    Re::Char(c)
}
pub fn st(s: &str) -> Re {
    Re::Str(s.into())
}
pub fn set(v: &[(char, char)]) -> Re {
    Re::Set(v.to_vec())
}
pub fn cat(a: Re, b: Re) -> Re {
    Re::Cat(Box::new(a), Box::new(b))
}
pub fn alt(a: Re, b: Re) -> Re {
    Re::Alt(Box::new(a), Box::new(b))
}
pub fn diff(a: Re, b: Re) -> Re {
    Re::Diff(Box::new(a), Box::new(b))
}
pub fn plus(a: Re) -> Re {
    Re::Plus(Box::new(a))
}
pub fn star(a: Re) -> Re {
    Re::Star(Box::new(a))
}
pub fn opt(a: Re) -> Re {
    Re::Opt(Box::new(a))
}
pub fn var(n: &str) -> Re {
    Re::Var(n.into())
}
pub fn builtin(n: &str) -> Re {
    Re::Builtin(n.into())
}

impl Re {
    pub fn size(&self) -> usize {
        match self {
            Re::Star(x) | Re::Plus(x) | Re::Opt(x) => 1 + x.size(),
            Re::Cat(x, y) | Re::Alt(x, y) | Re::Diff(x, y) => 1 + x.size() + y.size(),
            _ => 1,
        }
    }

    /// Substitute variables by their definitions.
    pub fn subst(&self, env: &Env) -> Re {
        match self {
            Re::Var(v) => env.get(v).unwrap_or_else(|| panic!("unbound {v}")).subst(env),
            Re::Star(x) => Re::Star(Box::new(x.subst(env))),
            Re::Plus(x) => Re::Plus(Box::new(x.subst(env))),
            Re::Opt(x) => Re::Opt(Box::new(x.subst(env))),
            Re::Cat(x, y) => Re::Cat(Box::new(x.subst(env)), Box::new(y.subst(env))),
            Re::Alt(x, y) => Re::Alt(Box::new(x.subst(env)), Box::new(y.subst(env))),
            Re::Diff(x, y) => Re::Diff(Box::new(x.subst(env)), Box::new(y.subst(env))),
            o => o.clone(),
        }
    }

    /// Does the regex match the empty string (with no `$`)? Variables must be substituted.
    pub fn nullable_syn(&self) -> bool {
        match self {
            Re::Str(s) => s.is_empty(),
            Re::Star(_) | Re::Opt(_) => true,
            Re::Plus(x) => x.nullable_syn(),
            Re::Cat(x, y) => x.nullable_syn() && y.nullable_syn(),
            Re::Alt(x, y) => x.nullable_syn() || y.nullable_syn(),
            _ => false,
        }
    }

    pub fn has_eoi(&self) -> bool {
        match self {
            Re::Eoi => true,
            Re::Star(x) | Re::Plus(x) | Re::Opt(x) => x.has_eoi(),
            Re::Cat(x, y) | Re::Alt(x, y) | Re::Diff(x, y) => x.has_eoi() || y.has_eoi(),
            _ => false,
        }
    }

    /// Map every literal character (chars, strings, set members) through `f`. Ranges are expanded
    /// into single characters first (only meaningful for small ranges).
    pub fn map_chars(&self, f: &dyn Fn(char) -> char) -> Re {
        match self {
            Re::Char(c) => Re::Char(f(*c)),
            Re::Str(s) => Re::Str(s.chars().map(f).collect()),
            Re::Set(v) => Re::Set(v.iter().flat_map(|(a, b)| (*a..=*b).map(|c| (f(c), f(c)))).collect()),
            Re::Star(x) => Re::Star(Box::new(x.map_chars(f))),
            Re::Plus(x) => Re::Plus(Box::new(x.map_chars(f))),
            Re::Opt(x) => Re::Opt(Box::new(x.map_chars(f))),
            Re::Cat(x, y) => Re::Cat(Box::new(x.map_chars(f)), Box::new(y.map_chars(f))),
            Re::Alt(x, y) => Re::Alt(Box::new(x.map_chars(f)), Box::new(y.map_chars(f))),
            Re::Diff(x, y) => Re::Diff(Box::new(x.map_chars(f)), Box::new(y.map_chars(f))),
            o => o.clone(),
        }
    }
}

/// The set of code points a class-like regex denotes (`None` if it is not class-like).
/// This is the README's meaning of sets, ranges, `_`, built-ins, `|` between classes and `#`.
pub fn class_of(r: &Re, env: &Env) -> Option<ISet> {
    Some(match r {
        Re::Char(c) => vec![(*c as u32, *c as u32)],
        Re::Set(v) => iset::norm(v.iter().map(|(a, b)| (*a as u32, *b as u32)).collect()),
        Re::Any => vec![(0, iset::MAX_CP)],
        Re::Builtin(n) => builtin_set(n)?.clone(),
        Re::Var(v) => class_of(env.get(v)?, env)?,
        Re::Alt(a, b) => iset::union(&class_of(a, env)?, &class_of(b, env)?),
        Re::Diff(a, b) => iset::diff(&class_of(a, env)?, &class_of(b, env)?),
        _ => return None,
    })
}

// ------------------------------------------------------------------ printing

pub fn pc(c: char) -> String {
    match c {
        '\'' => "'\\''".into(),
        '"' => "'\"'".into(),
        _ => format!("'{}'", c.escape_default()),
    }
}

pub fn ps(s: &str) -> String {
    let mut out = String::from("\"");
    for c in s.chars() {
        match c {
            '"' => out.push_str("\\\""),
            '\'' => out.push('\''),
            _ => out.extend(c.escape_default()),
        }
    }
    out.push('"');
    out
}

fn print_set(v: &[(char, char)]) -> String {
    format!(
        "[{}]",
        v.iter()
            .map(|(a, b)| if a == b { pc(*a) } else { format!("{}-{}", pc(*a), pc(*b)) })
            .collect::<Vec<_>>()
            .join(" ")
    )
}

/// Precedence levels: 0 = `|`, 1 = concatenation, 2 = postfix, 3 = `#`, 4 = atom.
fn level(r: &Re) -> u8 {
    match r {
        Re::Alt(..) => 0,
        Re::Cat(..) => 1,
        Re::Star(_) | Re::Plus(_) | Re::Opt(_) => 2,
        Re::Diff(..) => 3,
        _ => 4,
    }
}

/// Print with the fewest parentheses the documented precedence (`#` > postfix > concatenation >
/// `|`, all left-associative) allows.
pub fn print_min(r: &Re) -> String {
    fn p(r: &Re, min_level: u8) -> String {
        let s = match r {
            Re::Eoi => "$".into(),
            Re::Char(c) => pc(*c),
            Re::Str(s) => ps(s),
            Re::Set(v) => print_set(v),
            Re::Any => "_".into(),
            Re::Builtin(n) => format!("$${n}"),
            Re::Var(n) => format!("${n}"),
            Re::Star(x) => format!("{}*", p(x, 2)),
            Re::Plus(x) => format!("{}+", p(x, 2)),
            Re::Opt(x) => format!("{}?", p(x, 2)),
            Re::Cat(x, y) => format!("{} {}", p(x, 1), p(y, 2)),
            Re::Alt(x, y) => format!("{} | {}", p(x, 0), p(y, 1)),
            Re::Diff(x, y) => format!("{} # {}", p(x, 3), p(y, 4)),
        };
        if level(r) < min_level {
            format!("({s})")
        } else {
            s
        }
    }
    p(r, 0)
}

/// Print fully parenthesised (every non-atom operand in parentheses).
pub fn print_full(r: &Re) -> String {
    fn a(r: &Re) -> String {
        if level(r) == 4 {
            print_full(r)
        } else {
            format!("({})", print_full(r))
        }
    }
    match r {
        Re::Star(x) => format!("{}*", a(x)),
        Re::Plus(x) => format!("{}+", a(x)),
        Re::Opt(x) => format!("{}?", a(x)),
        Re::Cat(x, y) => format!("{} {}", a(x), a(y)),
        Re::Alt(x, y) => format!("{} | {}", a(x), a(y)),
        Re::Diff(x, y) => format!("{} # {}", a(x), a(y)),
        o => print_min(o),
    }
}

#[cfg(test)]
mod tests {
    use super::*;
    #[test]
    fn printing() {
        let r = cat(alt(ch('a'), ch('b')), star(cat(ch('c'), ch('d'))));
        assert_eq!(print_min(&r), "('a' | 'b') ('c' 'd')*");
        let r = alt(ch('a'), cat(ch('b'), plus(diff(Re::Any, ch('x')))));
        assert_eq!(print_min(&r), "'a' | 'b' _ # 'x'+");
        let r = cat(ch('a'), cat(ch('b'), ch('c')));
        assert_eq!(print_min(&r), "'a' ('b' 'c')");
        let r = diff(diff(Re::Any, ch('a')), ch('b'));
        assert_eq!(print_min(&r), "_ # 'a' # 'b'");
        let r = diff(Re::Any, alt(ch('a'), ch('b')));
        assert_eq!(print_min(&r), "_ # ('a' | 'b')");
        let r = star(star(ch('a')));
        assert_eq!(print_min(&r), "'a'**");
        assert_eq!(pc('\n'), "'\\n'");
        assert_eq!(pc('\u{301}'), "'\\u{301}'");
        assert_eq!(ps("a\"b"), "\"a\\\"b\"");
    }
}
