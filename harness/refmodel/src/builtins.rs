//! The 20 documented built-in classes, *defined* by the Rust predicates of the toolchain that
//! builds this harness (never by lexgen's tables).

use crate::iset::ISet;
use std::sync::OnceLock;
use unicode_xid::UnicodeXID;

pub type Pred = fn(char) -> bool;

macro_rules! ascii_pred {
    ($n:ident) => {{
        fn p(c: char) -> bool {
            c.$n()
        }
        p as Pred
    }};
}

pub fn builtin_names() -> Vec<&'static str> {
    builtin_preds().iter().map(|(n, _)| *n).collect()
}

pub fn builtin_preds() -> &'static [(&'static str, Pred)] {
    static P: OnceLock<Vec<(&'static str, Pred)>> = OnceLock::new();
    P.get_or_init(|| {
        vec![
            ("alphabetic", char::is_alphabetic as Pred),
            ("alphanumeric", char::is_alphanumeric as Pred),
            ("ascii", ascii_pred!(is_ascii)),
            ("ascii_alphabetic", ascii_pred!(is_ascii_alphabetic)),
            ("ascii_alphanumeric", ascii_pred!(is_ascii_alphanumeric)),
            ("ascii_control", ascii_pred!(is_ascii_control)),
            ("ascii_digit", ascii_pred!(is_ascii_digit)),
            ("ascii_graphic", ascii_pred!(is_ascii_graphic)),
            ("ascii_hexdigit", ascii_pred!(is_ascii_hexdigit)),
            ("ascii_lowercase", ascii_pred!(is_ascii_lowercase)),
            ("ascii_punctuation", ascii_pred!(is_ascii_punctuation)),
            ("ascii_uppercase", ascii_pred!(is_ascii_uppercase)),
            ("ascii_whitespace", ascii_pred!(is_ascii_whitespace)),
            ("control", char::is_control as Pred),
            ("lowercase", char::is_lowercase as Pred),
            ("numeric", char::is_numeric as Pred),
            ("uppercase", char::is_uppercase as Pred),
            ("whitespace", char::is_whitespace as Pred),
            ("XID_Start", (|c: char| UnicodeXID::is_xid_start(c)) as Pred),
            ("XID_Continue", (|c: char| UnicodeXID::is_xid_continue(c)) as Pred),
        ]
    })
}

pub fn pred_of(name: &str) -> Option<Pred> {
    builtin_preds().iter().find(|(n, _)| *n == name).map(|(_, p)| *p)
}

/// Direct scan of all scalar values; maximal runs merged across the surrogate gap are *not*
/// merged here (scalar values only: a run ending at U+D7FF and one starting at U+E000 stay two
/// intervals of code points, which denote the same set of scalar values either way).
pub fn scan_pred(p: impl Fn(char) -> bool) -> ISet {
    let mut out: ISet = vec![];
    let mut start: Option<u32> = None;
    let mut prev = 0u32;
    for i in 0..=0x10FFFFu32 {
        let Some(c) = char::from_u32(i) else {
            if let Some(s) = start.take() {
                out.push((s, prev));
            }
            continue;
        };
        if p(c) {
            if start.is_none() {
                start = Some(i);
            }
        } else if let Some(s) = start.take() {
            out.push((s, prev));
        }
        prev = i;
    }
    if let Some(s) = start {
        out.push((s, 0x10FFFF));
    }
    out
}

pub fn builtin_set(name: &str) -> Option<&'static ISet> {
    static SETS: OnceLock<Vec<(&'static str, ISet)>> = OnceLock::new();
    let sets = SETS.get_or_init(|| builtin_preds().iter().map(|(n, p)| (*n, scan_pred(p))).collect());
    sets.iter().find(|(n, _)| *n == name).map(|(_, s)| s)
}
