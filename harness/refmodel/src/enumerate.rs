//! Bounded-exhaustive enumeration of regex trees and input strings.

use crate::re::*;

/// Atom alphabet A12 of DESIGN.md §3 (first six = A6).
pub fn atoms12() -> Vec<Re> {
    vec![
        ch('a'),
        ch('b'),
        set(&[('a', 'a'), ('c', 'c')]),
        set(&[('a', 'b')]),
        Re::Any,
        st("ab"),
        ch('c'),
        set(&[('b', 'c')]),
        diff(Re::Any, ch('b')),
        diff(set(&[('a', 'c')]), ch('b')),
        st("ba"),
        st("cb"),
    ]
}

pub fn atoms6() -> Vec<Re> {
    atoms12().into_iter().take(6).collect()
}

/// All trees of size exactly `s` (memoised by size) over the atoms and `* + ? · |`.
pub fn gen_by_size(size: usize, atoms: &[Re]) -> Vec<Vec<Re>> {
    let mut memo: Vec<Vec<Re>> = vec![vec![]];
    for s in 1..=size {
        let mut v = vec![];
        if s == 1 {
            v = atoms.to_vec();
        } else {
            for r in &memo[s - 1] {
                v.push(star(r.clone()));
                v.push(plus(r.clone()));
                v.push(opt(r.clone()));
            }
            for l in 1..s - 1 {
                let r = s - 1 - l;
                if r < 1 {
                    continue;
                }
                for x in &memo[l] {
                    for y in &memo[r] {
                        v.push(cat(x.clone(), y.clone()));
                        v.push(alt(x.clone(), y.clone()));
                    }
                }
            }
        }
        memo.push(v);
    }
    memo
}

/// RE(k): all trees of size ≤ k.
pub fn re_upto(k: usize, atoms: &[Re]) -> Vec<Re> {
    gen_by_size(k, atoms).into_iter().flatten().collect()
}

/// RE⁺(k): the non-nullable ones (usable as rules).
pub fn re_plus(k: usize, atoms: &[Re]) -> Vec<Re> {
    re_upto(k, atoms).into_iter().filter(|r| !r.nullable_syn()).collect()
}

/// REctx(k): all of RE(k), plus `r $` for non-nullable r, plus `$` and `$ | r`-style tails.
pub fn re_ctx(k: usize, atoms: &[Re]) -> Vec<Re> {
    let base = re_upto(k, atoms);
    let mut out = base.clone();
    for r in base.iter().filter(|r| !r.nullable_syn()) {
        out.push(cat(r.clone(), Re::Eoi));
    }
    out.push(Re::Eoi);
    for r in base.iter().take(atoms.len()) {
        out.push(alt(Re::Eoi, r.clone()));
    }
    out
}

/// IN(L): all strings over `alphabet` of length ≤ L, shortest first.
pub fn inputs(maxlen: usize, alphabet: &[char]) -> Vec<String> {
    let mut out = vec![String::new()];
    let mut frontier = vec![String::new()];
    for _ in 0..maxlen {
        let mut next = Vec::with_capacity(frontier.len() * alphabet.len());
        for s in &frontier {
            for &c in alphabet {
                let mut t = s.clone();
                t.push(c);
                next.push(t);
            }
        }
        out.extend(next.iter().cloned());
        frontier = next;
    }
    out
}

/// Mixed-radix counter over `n` positions with base `b` each; calls `f` with each index vector.
pub fn for_each_tuple(n: usize, b: usize, mut f: impl FnMut(&[usize]) -> bool) {
    if b == 0 {
        return;
    }
    let mut idx = vec![0usize; n];
    loop {
        if !f(&idx) {
            return;
        }
        let mut k = 0;
        loop {
            if k == n {
                return;
            }
            idx[k] += 1;
            if idx[k] < b {
                break;
            }
            idx[k] = 0;
            k += 1;
        }
    }
}

#[cfg(test)]
mod tests {
    use super::*;
    #[test]
    fn sizes() {
        let a = atoms12();
        assert_eq!(re_plus(2, &a).len(), 24);
        assert_eq!(re_plus(3, &a).len(), 324);
        assert_eq!(inputs(5, &['a', 'b', 'c', 'x']).len(), 1365);
    }
}
