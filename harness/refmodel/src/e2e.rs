//! E — the end-to-end explorer: runs *real generated lexers* over all inputs ≤ L × all action
//! scripts ≤ D deviations × constructors / clone plans, compares with R (deciding) and replays on M
//! (binding the model to the implementation).

use crate::dump::Dump;
use crate::machine::Machine;
use crate::rlexer::{RInfo, RLexer};
use crate::spec::*;
use crate::trace::*;
use serde_json::{json, Value};
use std::collections::HashSet;
use std::hash::{Hash, Hasher};
use std::sync::atomic::{AtomicUsize, Ordering};
use std::sync::Mutex;

#[derive(Clone, Copy, Debug, PartialEq, Eq)]
pub enum Proj {
    /// C01: (rule, lexeme span) sequence and error/none kinds
    Tokens,
    /// C06 (with Locs): rule and byte span of every token, and the exact location of every error
    Spans,
    /// C03: ids of the rules that fired, per call
    RuleIds,
    /// C04/C05/C10: the whole trace (events with spans, text, peek; items; probes)
    Full,
    /// C06: internal consistency of every location and span (no reference lexer involved)
    Locs,
    /// C07: Invalid iff no candidate at the implementation's own position; Custom payload/location
    Errors,
    /// C08: everything from the first InvalidToken on
    Recovery,
    /// C09: budgets, panics, counts
    Progress,
    /// C14: all constructors give the same trace (text removed)
    Ctors,
    /// C15: clone and original continue identically and independently
    Clones,
    /// C11/C13: one-rule class lexers run on single code points (all scalar values or all
    /// boundaries +-2), against plain set membership
    ClassSweep,
}

#[derive(Clone, Debug)]
pub struct Plan {
    pub prop: &'static str,
    pub proj: Proj,
    pub alphabet: Vec<char>,
    pub max_len: usize,
    pub extra_inputs: Vec<String>,
    /// deviation bound
    pub max_dev: usize,
    /// only the first `dev_positions` action invocations may deviate
    pub dev_positions: usize,
    pub ctors: Vec<u8>,
    /// also run without probes and require the same items
    pub check_probe_neutral: bool,
    /// ClassSweep: every scalar value (true) or only values within +-2 of a boundary (false)
    pub sweep_all: bool,
    /// Clones: interleave up to this many further calls on each side
    pub clone_depth: usize,
    /// also feed every input through a non-fused iterator that reports end of input after each
    /// possible prefix and then continues: the lexer must behave as on the prefix and stay ended
    pub pieces: bool,
}

#[derive(Default)]
pub struct Counters {
    pub executions: u64,
    pub steps: u64,
    pub rewinds: u64,
    pub errors: u64,
    pub customs: u64,
    pub switches: u64,
    pub eoi_matches: u64,
    pub latitude_used: u64,
    pub m_validated: u64,
    pub m_drift: u64,
    pub m_states: u64,
    pub m_transitions: u64,
    pub distinct_outcomes: u64,
    pub clone_points: u64,
    pub interleavings: u64,
    pub max_dev_reached: usize,
}

#[derive(Clone, Debug)]
pub struct Violation {
    pub lexer: usize,
    pub input: String,
    pub script: Vec<u8>,
    pub ctor: u8,
    pub what: String,
    pub expected: String,
    pub observed: String,
}

fn hash_trace(t: &Trace) -> u64 {
    let mut h = std::collections::hash_map::DefaultHasher::new();
    t.hash(&mut h);
    h.finish()
}

fn menu_for(spec: &Spec) -> Vec<u8> {
    let mut menu = vec![D_RETURN, D_CONTINUE, D_RESET_CONTINUE, D_RESET_RETURN];
    if spec.is_named() {
        for k in 0..spec.sets.len() {
            menu.push(d_switch(k));
            menu.push(d_switch_return(k));
        }
    }
    if spec.has_fallible() {
        menu.push(D_ERR);
        if spec.is_named() {
            for k in 0..spec.sets.len() {
                menu.push(d_switch_err(k));
            }
        }
    }
    menu
}

fn strip_text(t: &Trace) -> Trace {
    t.iter()
        .map(|s| Step { events: s.events.iter().map(|e| Ev { text: None, ..e.clone() }).collect(), item: s.item.clone(), probe: s.probe })
        .collect()
}

fn items(t: &Trace) -> Vec<(Vec<Ev>, Item)> {
    t.iter().map(|s| (s.events.clone(), s.item.clone())).collect()
}

fn show_step(s: &Step) -> String {
    format!("{:?}", s)
}

/// Byte index -> char index, if on a boundary.
fn char_idx_of_byte(input: &[char], byte: usize) -> Option<usize> {
    let mut b = 0;
    for (i, c) in input.iter().enumerate() {
        if b == byte {
            return Some(i);
        }
        b += c.len_utf8();
    }
    if b == byte {
        Some(input.len())
    } else {
        None
    }
}

/// C06 oracle: every location is what a scan from the beginning gives; spans are ordered,
/// non-overlapping, on character boundaries; `match_()` is the spanned text.
fn check_locs(input: &str, t: &Trace) -> Option<(String, String, String)> {
    let chars: Vec<char> = input.chars().collect();
    let check_loc = |l: &Loc, what: &str| -> Option<(String, String, String)> {
        match char_idx_of_byte(&chars, l.byte_idx) {
            None => Some((format!("{what}: byte index not on a character boundary"), "a boundary".into(), format!("{l:?}"))),
            Some(ci) => {
                let exp = loc_at(&chars, ci);
                if exp != *l {
                    Some((format!("{what}: line/column differ from a scan from the start"), format!("{exp:?}"), format!("{l:?}")))
                } else {
                    None
                }
            }
        }
    };
    let mut last_tok_end = 0usize;
    for (k, st) in t.iter().enumerate() {
        for e in &st.events {
            if let Some(v) = check_loc(&e.start, &format!("call {k} action match_loc start")) {
                return Some(v);
            }
            if let Some(v) = check_loc(&e.end, &format!("call {k} action match_loc end")) {
                return Some(v);
            }
            if e.start.byte_idx > e.end.byte_idx {
                return Some((format!("call {k}: action span inverted"), "start <= end".into(), format!("{e:?}")));
            }
            if let Some(txt) = &e.text {
                let exp = &input[e.start.byte_idx..e.end.byte_idx];
                if exp != txt {
                    return Some((format!("call {k}: match_() is not the spanned text"), format!("{exp:?}"), format!("{txt:?}")));
                }
            }
            if e.start.byte_idx < last_tok_end {
                return Some((format!("call {k}: action span starts before the previous token ended"), format!(">= {last_tok_end}"), format!("{e:?}")));
            }
            let pk = char_idx_of_byte(&chars, e.end.byte_idx).and_then(|ci| chars.get(ci).copied());
            if pk != e.peek {
                return Some((format!("call {k}: peek() is not the first unconsumed character"), format!("{pk:?}"), format!("{:?}", e.peek)));
            }
        }
        match &st.item {
            Item::Tok(s, _, e) => {
                if let Some(v) = check_loc(s, &format!("call {k} token start")) {
                    return Some(v);
                }
                if let Some(v) = check_loc(e, &format!("call {k} token end")) {
                    return Some(v);
                }
                if s.byte_idx > e.byte_idx {
                    return Some((format!("call {k}: token span inverted"), "start <= end".into(), format!("{:?}", st.item)));
                }
                if s.byte_idx < last_tok_end {
                    return Some((format!("call {k}: token overlaps the previous one"), format!("start >= {last_tok_end}"), format!("{:?}", st.item)));
                }
                last_tok_end = e.byte_idx;
            }
            Item::Invalid(l) | Item::Custom(_, l) => {
                if let Some(v) = check_loc(l, &format!("call {k} error location")) {
                    return Some(v);
                }
                if l.byte_idx < last_tok_end {
                    return Some((format!("call {k}: error location before the end of the previous token"), format!(">= {last_tok_end}"), format!("{:?}", st.item)));
                }
            }
            Item::None => {}
            Item::Panic(m) => return Some((format!("call {k}: panic"), "no panic".into(), m.clone())),
        }
        if let Some((ps, pe, _)) = &st.probe {
            if let Some(v) = check_loc(ps, &format!("after call {k}: match_loc start")) {
                return Some(v);
            }
            if let Some(v) = check_loc(pe, &format!("after call {k}: match_loc end")) {
                return Some(v);
            }
        }
    }
    None
}

fn check_progress(input: &str, t: &Trace, nones: usize) -> Option<(String, String, String)> {
    let n = input.chars().count();
    if let Some(k) = t.iter().position(|s| matches!(s.item, Item::Panic(_))) {
        return Some((format!("call {k} panicked"), "no panic".into(), format!("{:?}", t[k].item)));
    }
    let none_count = t.iter().filter(|s| s.item == Item::None).count();
    if none_count < nones {
        return Some(("stream did not end within the call budget".into(), format!("<= {} calls", budget_for(input)), format!("{} calls, {} None", t.len(), none_count)));
    }
    let first_none = t.iter().position(|s| s.item == Item::None).unwrap();
    if first_none > n + 1 {
        return Some(("more than n+1 items".into(), format!("<= {}", n + 1), format!("{first_none}")));
    }
    // every item accounts for at least one input character or for the single end-of-input event:
    // the position the lexer has reached never moves backwards, and stands still at most once
    let mut pos = 0usize;
    let mut stalls = 0usize;
    for (k, s) in t[..first_none].iter().enumerate() {
        if let Some((_, pe, _)) = &s.probe {
            if pe.byte_idx < pos {
                return Some((format!("call {k}: the lexer went back in the input (position {} after position {pos})", pe.byte_idx), "positions never decrease".into(), format!("{:?}", s.item)));
            }
            if pe.byte_idx == pos {
                stalls += 1;
                if stalls > 1 {
                    return Some((format!("call {k}: a second item that accounts for no input character"), "at most one end-of-input event".into(), format!("{:?}", s.item)));
                }
            }
            pos = pe.byte_idx;
        }
    }
    let actions: usize = t.iter().map(|s| s.events.len()).sum();
    if actions > n + 1 {
        return Some(("more than n+1 action invocations".into(), format!("<= {}", n + 1), format!("{actions}")));
    }
    if t[first_none..].iter().any(|s| s.item != Item::None) || t[first_none + 1..].iter().any(|s| !s.events.is_empty()) {
        return Some(("stream not fused: something after the first None".into(), "None forever".into(), format!("{:?}", &t[first_none..])));
    }
    None
}

/// Compare an implementation trace with R (run in follow mode). Returns the first mismatch under
/// the projection.
fn compare(proj: Proj, spec: &Spec, input: &str, script: &[u8], has_str: bool, t: &Trace, c: &mut Counters) -> Option<(String, String, String)> {
    let mut r = RLexer::new(spec, input, script, has_str);
    let mut after_error = false;
    let chars: Vec<char> = input.chars().collect();
    for (k, st) in t.iter().enumerate() {
        if let Item::Panic(m) = &st.item {
            return Some((format!("call {k} panicked"), "no panic".into(), m.clone()));
        }
        let r_pos_before = r.pos;
        let r_ms_before = r.match_start;
        let r_rs_before = r.rs;
        let hint = st.probe.map(|p| p.1.byte_idx);
        let (exp, info): (Step, RInfo) = r.next(hint);
        c.steps += 1;
        c.rewinds += info.rewinds as u64;
        if info.no_candidate {
            c.errors += 1;
        }
        if matches!(exp.item, Item::Custom(..)) {
            c.customs += 1;
        }
        if info.eoi_match {
            c.eoi_matches += 1;
        }
        if info.allowed_resume.len() > 1 {
            c.latitude_used += 1;
        }
        if r.rs != r_rs_before {
            c.switches += 1;
        }
        let mism = |what: &str| Some((format!("call {k}: {what}"), show_step(&exp), show_step(st)));
        match proj {
            Proj::Full => {
                if exp != *st {
                    let what = if exp.item != st.item {
                        match (&exp.item, &st.item) {
                            (Item::Custom(a, _), Item::Custom(b, _)) if a == b => "custom error location",
                            (Item::Invalid(_), Item::Invalid(_)) => "InvalidToken location",
                            (Item::Tok(..), Item::Invalid(..)) => "InvalidToken instead of a token",
                            (Item::Invalid(..), Item::Tok(..)) => "token instead of InvalidToken",
                            (Item::Tok(_, a, _), Item::Tok(_, b, _)) if a != b => "different rule",
                            (Item::Tok(..), Item::Tok(..)) => "different span",
                            (Item::None, _) => "item instead of None",
                            (_, Item::None) => "None instead of an item",
                            _ => "different item",
                        }
                    } else if exp.events != st.events {
                        "different action log"
                    } else {
                        "different state after the call (match_loc/peek probe)"
                    };
                    return mism(what);
                }
            }
            Proj::Tokens | Proj::Spans => {
                let with_err_loc = proj == Proj::Spans;
                let key = |s: &Step| match &s.item {
                    Item::Tok(a, r, b) => format!("tok {r} {}..{}", a.byte_idx, b.byte_idx),
                    Item::Invalid(l) if with_err_loc => format!("invalid at {l:?}"),
                    Item::Custom(e, l) if with_err_loc => format!("custom {e} at {l:?}"),
                    Item::Invalid(_) => "invalid".into(),
                    Item::Custom(e, _) => format!("custom {e}"),
                    Item::None => "none".into(),
                    Item::Panic(_) => "panic".into(),
                };
                if key(&exp) != key(st) {
                    return mism("(rule, lexeme) differs from the maximal-munch reference");
                }
                let ids = |s: &Step| s.events.iter().map(|e| e.rule).collect::<Vec<_>>();
                if ids(&exp) != ids(st) {
                    return mism("a different rule's action ran");
                }
            }
            Proj::RuleIds => {
                let ids = |s: &Step| s.events.iter().map(|e| (e.rule, e.start.byte_idx, e.end.byte_idx)).collect::<Vec<_>>();
                let kind = |s: &Step| match &s.item {
                    Item::Tok(_, r, _) => format!("tok {r}"),
                    Item::Invalid(_) => "invalid".into(),
                    Item::Custom(e, _) => format!("custom {e}"),
                    Item::None => "none".into(),
                    Item::Panic(_) => "panic".into(),
                };
                if ids(&exp) != ids(st) || kind(&exp) != kind(st) {
                    return mism("rules fired are not those of the active rule set");
                }
            }
            Proj::Errors => {
                // R is at the implementation's own position as long as the previous calls agreed on
                // where they stopped; stop judging once that is no longer so.
                let impl_invalid = matches!(st.item, Item::Invalid(_));
                let ref_invalid = matches!(exp.item, Item::Invalid(_));
                if impl_invalid != ref_invalid {
                    return mism(if impl_invalid { "InvalidToken although some rule matches here" } else { "no InvalidToken although nothing matches here" });
                }
                match (&exp.item, &st.item) {
                    (Item::Invalid(a), Item::Invalid(b)) if a != b => return mism("InvalidToken location is not the start of the offending lexeme"),
                    (Item::Custom(e1, a), Item::Custom(e2, b)) => {
                        if e1 != e2 {
                            return mism("custom error payload changed");
                        }
                        if a != b {
                            return mism("custom error location is not the start of the current match");
                        }
                    }
                    (Item::Custom(..), _) | (_, Item::Custom(..)) => return mism("custom error not surfaced as Err(Custom) without a token"),
                    _ => {}
                }
                if exp.item != st.item || exp.probe.map(|p| p.1) != st.probe.map(|p| p.1) {
                    // positions diverged for a reason that is not this property's: stop here
                    let _ = (r_pos_before, r_ms_before);
                    return None;
                }
            }
            Proj::Recovery => {
                if matches!(exp.item, Item::Invalid(_)) || matches!(st.item, Item::Invalid(_)) {
                    after_error = true;
                }
                if after_error {
                    if exp != *st {
                        let what = if exp.item != st.item || exp.events != st.events {
                            "tokens/actions after a failure differ from the reference tokenisation from the resume position in Init"
                        } else {
                            "state after the failure (empty match at an allowed resume position) differs"
                        };
                        return mism(what);
                    }
                } else if exp.item != st.item || exp.probe.map(|p| p.1) != st.probe.map(|p| p.1) {
                    return None; // diverged before any failure: not this property's business
                }
            }
            Proj::Locs | Proj::Progress | Proj::Ctors | Proj::Clones | Proj::ClassSweep => unreachable!(),
        }
        let _ = &chars;
    }
    None
}

pub struct LexerUnderTest<'a> {
    pub spec: &'a Spec,
    pub runner: Runner,
    pub dump: Option<&'a Dump>,
}

fn replay_on_m(l: &LexerUnderTest, input: &str, script: &[u8], has_str: bool, t: &Trace, c: &mut Counters, mstates: &mut HashSet<(usize, usize, bool, bool)>) -> Option<String> {
    let dump = l.dump?;
    let mut m = match Machine::new(dump, l.spec, input, script, has_str) {
        Ok(m) => m,
        Err(e) => return Some(e),
    };
    let mut drift = None;
    for (k, st) in t.iter().enumerate() {
        let ms = m.next();
        if ms != *st {
            drift = Some(format!("call {k}: model {:?} impl {:?}", ms, st));
            break;
        }
    }
    c.m_transitions += m.transitions;
    mstates.extend(m.configs.iter().copied());
    match drift {
        None => {
            c.m_validated += 1;
            None
        }
        Some(d) => {
            c.m_drift += 1;
            Some(d)
        }
    }
}

struct Explorer<'a, 'b> {
    slot: Option<usize>,
    plan: &'a Plan,
    l: &'a LexerUnderTest<'b>,
    idx: usize,
    menu: Vec<u8>,
    c: Counters,
    outcomes: HashSet<u64>,
    mstates: HashSet<(usize, usize, bool, bool)>,
    viols: Vec<Violation>,
    drift_sample: Option<String>,
}

impl Explorer<'_, '_> {
    fn viol(&mut self, input: &str, script: &[u8], ctor: u8, v: (String, String, String)) {
        if self.viols.len() < 3 {
            self.viols.push(Violation { lexer: self.idx, input: input.to_string(), script: script.to_vec(), ctor, what: v.0, expected: v.1, observed: v.2 });
        }
    }

    fn run_one(&mut self, input: &str, script: &[u8], ctor: u8) -> Trace {
        if let Some(slot) = self.slot {
            CURRENT.lock().unwrap()[slot] = Some((self.idx, input.to_string(), script.to_vec(), now_ms()));
        }
        let args = RunArgs { input, script, ctor, probes: true, nones: 3, no_text: input.len() > 64, split: 0 };
        let (t, _, _) = (self.l.runner)(&args, &Mode::Plain);
        self.c.executions += 1;
        self.outcomes.insert(hash_trace(&t));
        t
    }

    /// One execution under the plan's projection; returns number of action invocations seen.
    fn execute(&mut self, input: &str, script: &[u8]) -> usize {
        let plan = self.plan;
        let ctor0 = plan.ctors[0];
        // `match_()` text is not recorded for long inputs (see RunArgs::no_text)
        let has_str = |c: u8| (c == CTOR_NEW_WITH_STATE || c == CTOR_NEW) && input.len() <= 64;
        let t = self.run_one(input, script, ctor0);
        let n_actions: usize = t.iter().map(|s| s.events.len()).sum();
        // determinism: same input, same script => same trace
        match plan.proj {
            Proj::Locs => {
                if let Some(v) = check_locs(input, &t) {
                    self.viol(input, script, ctor0, v);
                } else if let Some(v) = compare(Proj::Spans, self.l.spec, input, script, has_str(ctor0), &t, &mut self.c) {
                    // "input[start..end] is exactly the matched lexeme": spans against the reference
                    self.viol(input, script, ctor0, v);
                }
                for &ctor in &plan.ctors[1..] {
                    let t2 = self.run_one(input, script, ctor);
                    if let Some(v) = check_locs(input, &t2) {
                        self.viol(input, script, ctor, v);
                    }
                }
            }
            Proj::Progress => {
                if let Some(v) = check_progress(input, &t, 3) {
                    self.viol(input, script, ctor0, v);
                }
                for &ctor in &plan.ctors[1..] {
                    let t2 = self.run_one(input, script, ctor);
                    if let Some(v) = check_progress(input, &t2, 3) {
                        self.viol(input, script, ctor, v);
                    }
                }
            }
            Proj::Ctors => {
                let base = strip_text(&t);
                for &ctor in &plan.ctors[1..] {
                    let t2 = self.run_one(input, script, ctor);
                    if strip_text(&t2) != base {
                        let k = (0..base.len().max(t2.len())).find(|&k| base.get(k) != strip_text(&t2).get(k)).unwrap_or(0);
                        self.viol(input, script, ctor, (format!("constructor {ctor} differs from constructor {ctor0} at call {k}"), format!("{:?}", base.get(k)), format!("{:?}", t2.get(k))));
                    }
                }
            }
            Proj::Clones => {
                // reference: the unshared run `t` (2 Nones are enough: cut there)
                let cut = |t: &Trace| -> Trace {
                    let mut out = vec![];
                    let mut nones = 0;
                    for s in t {
                        out.push(s.clone());
                        if s.item == Item::None {
                            nones += 1;
                            if nones == 2 {
                                break;
                            }
                        }
                    }
                    out
                };
                let whole = cut(&t);
                let args = RunArgs { input, script, ctor: ctor0, probes: true, nones: 2, no_text: input.len() > 64, split: 0 };
                // two runs of the same lexer on the same input give the same result — also when
                // the second run starts from a fresh thread (no state left behind by earlier runs of
                // this or other lexers can matter)
                let t_again = self.run_one(input, script, ctor0);
                if t_again != t {
                    self.viol(input, script, ctor0, ("two runs on the same input differ".into(), format!("{:?}", t), format!("{:?}", t_again)));
                }
                let runner = self.l.runner;
                let (i2, s2) = (input.to_string(), script.to_vec());
                let t_fresh = std::thread::spawn(move || {
                    let args = RunArgs { input: &i2, script: &s2, ctor: ctor0, probes: true, nones: 3, no_text: i2.len() > 64, split: 0 };
                    runner(&args, &Mode::Plain).0
                })
                .join();
                self.c.executions += 1;
                match t_fresh {
                    Ok(tf) if tf == t => {}
                    Ok(tf) => self.viol(input, script, ctor0, ("a run on a fresh thread differs from a run after other runs: lexing depends on state outside the lexer value".into(), format!("{:?}", tf), format!("{:?}", t))),
                    Err(_) => self.viol(input, script, ctor0, ("a run on a fresh thread panicked".into(), "no panic".into(), "panic".into())),
                }
                for k in 0..=whole.len() {
                    self.c.clone_points += 1;
                    let rest: Trace = whole[k..].to_vec();
                    // all interleavings of up to 3 remaining calls on each side
                    let na = rest.len().min(self.plan.clone_depth.max(1));
                    let mut patterns: Vec<Vec<bool>> = vec![];
                    fn gen(a: usize, b: usize, cur: &mut Vec<bool>, out: &mut Vec<Vec<bool>>) {
                        if a == 0 && b == 0 {
                            out.push(cur.clone());
                            return;
                        }
                        if a > 0 {
                            cur.push(false);
                            gen(a - 1, b, cur, out);
                            cur.pop();
                        }
                        if b > 0 {
                            cur.push(true);
                            gen(a, b - 1, cur, out);
                            cur.pop();
                        }
                    }
                    gen(na.max(1), na.max(1), &mut vec![], &mut patterns);
                    for p in &patterns {
                        self.c.interleavings += 1;
                        self.c.executions += 1;
                        let (prefix, a, b) = (self.l.runner)(&args, &Mode::Clone(k, p));
                        let exp_prefix: Trace = whole[..k].to_vec();
                        // past the end of the reference run every further call must be None
                        let padded = |got: &Trace, exp: &Trace| -> bool {
                            got.len() >= exp.len()
                                && got.iter().zip(exp.iter()).all(|(x, y)| x == y)
                                && got.iter().skip(exp.len()).all(|s| s.item == Item::None && s.events.is_empty())
                        };
                        if prefix != exp_prefix {
                            self.viol(input, script, ctor0, (format!("clone point {k}: prefix differs from unshared run"), format!("{:?}", exp_prefix), format!("{:?}", prefix)));
                        }
                        if !padded(&a, &rest) {
                            self.viol(input, script, ctor0, (format!("clone point {k}, interleaving {p:?}: the original's remaining stream differs from an unshared run"), format!("{:?}", rest), format!("{:?}", a)));
                        }
                        if !padded(&b, &rest) {
                            self.viol(input, script, ctor0, (format!("clone point {k}, interleaving {p:?}: the clone's remaining stream differs from an unshared run"), format!("{:?}", rest), format!("{:?}", b)));
                        }
                    }
                }
            }
            proj => {
                if let Some(v) = compare(proj, self.l.spec, input, script, has_str(ctor0), &t, &mut self.c) {
                    self.viol(input, script, ctor0, v);
                }
                for &ctor in &plan.ctors[1..] {
                    let t2 = self.run_one(input, script, ctor);
                    if let Some(v) = compare(proj, self.l.spec, input, script, has_str(ctor), &t2, &mut self.c) {
                        self.viol(input, script, ctor, v);
                    }
                }
            }
        }
        // end of input is acted upon once: a non-fused iterator that goes on after its first `None`
        let eoi_then_ctx = self.l.spec.sets.iter().flat_map(|s| &s.rules).any(|r| r.ctx.is_some() && r.re.has_eoi());
        if plan.pieces && script.is_empty() && input.len() <= 64 && !eoi_then_ctx {
            let n = input.chars().count();
            for split in 0..n {
                let args = RunArgs { input, script, ctor: CTOR_PIECES, probes: false, nones: 3, no_text: false, split };
                let (tp, _, _) = (self.l.runner)(&args, &Mode::Plain);
                self.c.executions += 1;
                let prefix: String = input.chars().take(split).collect();
                let argsp = RunArgs { input: &prefix, script, ctor: CTOR_FROM_ITER_WITH_STATE, probes: false, nones: 3, no_text: false, split: 0 };
                let (te, _, _) = (self.l.runner)(&argsp, &Mode::Plain);
                self.c.executions += 1;
                // what an action sees through `peek()` after the iterator's first `None` is the
                // iterator's business (it is not fused): compare everything but that
                let nopeek = |t: &Trace| -> Vec<(Vec<Ev>, Item)> { items(t).into_iter().map(|(ev, it)| (ev.into_iter().map(|e| Ev { peek: None, ..e }).collect(), it)).collect() };
                if nopeek(&tp) != nopeek(&te) {
                    let k = (0..tp.len().max(te.len())).find(|&k| nopeek(&tp).get(k) != nopeek(&te).get(k)).unwrap_or(0);
                    self.viol(
                        input,
                        script,
                        CTOR_PIECES,
                        (
                            format!("iterator reports end of input after {split} characters and then continues: the lexer must behave as on {prefix:?} and stay ended; call {k} differs"),
                            format!("{:?}", te.get(k).map(|s| &s.item)),
                            format!("{:?}", tp.get(k).map(|s| &s.item)),
                        ),
                    );
                    break;
                }
            }
        }
        // probe neutrality: probing between calls must not change what the lexer returns
        if plan.check_probe_neutral && script.is_empty() {
            let args = RunArgs { input, script, ctor: ctor0, probes: false, nones: 3, no_text: input.len() > 64, split: 0 };
            let (t2, _, _) = (self.l.runner)(&args, &Mode::Plain);
            self.c.executions += 1;
            if items(&t2) != items(&t) {
                // harness-level problem or lexer nondeterminism; reported as a violation of the
                // running property because observations are then not trustworthy
                self.viol(input, script, ctor0, ("run without probes returns different items".into(), format!("{:?}", items(&t)), format!("{:?}", items(&t2))));
            }
        }
        // bind M (long inputs are for progress only: the model's location arithmetic is quadratic)
        if input.len() > 64 {
            return n_actions;
        }
        if let Some(d) = replay_on_m(self.l, input, script, has_str(ctor0), &t, &mut self.c, &mut self.mstates) {
            if self.drift_sample.is_none() {
                self.drift_sample = Some(format!("input {input:?} script {script:?}: {d}"));
            }
        }
        n_actions
    }

    /// C11/C13: the lexer's first rule is a character class `C`, alone (`C`), followed by a
    /// literal (`C 'x'`), or used as the right context of `'a'` (`'a' > C`). Run it on every
    /// selected scalar value and compare with set membership.
    fn sweep(&mut self) {
        use crate::re::{class_of, Re};
        let spec = self.l.spec;
        let rule0 = &spec.sets[0].rules[0];
        let env = spec.env_of_set(0);
        let (class_re, prefix, suffix): (&Re, &str, &str) = match (&rule0.ctx, &rule0.re) {
            (Some(c), _) => (c, "a", ""),
            (None, Re::Cat(c, x)) if **x == Re::Char('x') => (c, "", "x"),
            (None, r) => (r, "", ""),
        };
        // (a) every rule is `'p' C` with its own first character p: each class is swept behind its p;
        // (b) one rule is a class C (or C+) beside string rules of two or more characters (decoys
        //     whose first character lies in C): C is swept alone, the decoys cannot match one character
        let rules = &spec.sets[0].rules;
        fn pre<'a>(re: &'a Re, env: &crate::re::Env) -> Option<(char, &'a Re, String)> {
            match re {
                Re::Cat(p, c) => match (&**p, &**c) {
                    (Re::Char(pc), c) if class_of(c, env).is_some() => Some((*pc, c, String::new())),
                    (Re::Cat(p2, c2), Re::Char(s)) => match &**p2 {
                        Re::Char(pc) if class_of(c2, env).is_some() => Some((*pc, &**c2, s.to_string())),
                        _ => None,
                    },
                    _ => None,
                },
                _ => None,
            }
        }
        let prefixed: Vec<(char, &Re, String)> = rules.iter().filter_map(|r| if r.ctx.is_none() { pre(&r.re, &env) } else { None }).collect();
        if rules.len() > 1 && prefixed.len() == rules.len() {
            for (i, (p, c, s)) in prefixed.iter().enumerate() {
                let set = crate::iset::scalar_only(&class_of(c, &env).unwrap());
                self.sweep_case(&p.to_string(), s, &set, &[], i);
            }
            return;
        }
        let decoys = rules.iter().filter(|r| matches!(&r.re, Re::Str(s) if s.chars().count() >= 2) && r.ctx.is_none()).count();
        if decoys > 0 && decoys + 1 == rules.len() {
            let (i, r) = rules.iter().enumerate().find(|(_, r)| !matches!(&r.re, Re::Str(_))).unwrap();
            let c = match &r.re { Re::Plus(c) => &**c, c => c };
            let set = crate::iset::scalar_only(&class_of(c, &env).expect("class sweep needs a class"));
            self.sweep_case("", "", &set, &[], i);
            return;
        }
        let set = crate::iset::scalar_only(&class_of(class_re, &env).expect("class sweep needs a class"));
        // several rules, each a bare class: the first listed rule containing the character wins
        let multi: Vec<crate::iset::ISet> = if spec.sets[0].rules.len() > 1 && prefix.is_empty() && suffix.is_empty() && spec.sets[0].rules.iter().all(|r| r.ctx.is_none() && class_of(&r.re, &env).is_some()) {
            spec.sets[0].rules.iter().map(|r| crate::iset::scalar_only(&class_of(&r.re, &env).unwrap())).collect()
        } else {
            vec![]
        };
        // (c) class rules of which some have a one-character context: the input is one character,
        // so those contexts fail and the first context-free class containing the character wins
        if spec.sets[0].rules.len() > 1 && spec.sets[0].rules[1..].iter().all(|r| r.ctx.is_none()) && matches!(rule0.ctx, Some(Re::Char(_))) && spec.sets[0].rules.iter().all(|r| class_of(&r.re, &env).is_some()) {
            let multi: Vec<crate::iset::ISet> = spec.sets[0].rules.iter().map(|r| if r.ctx.is_some() { vec![] } else { crate::iset::scalar_only(&class_of(&r.re, &env).unwrap()) }).collect();
            self.sweep_case("", "", &vec![], &multi, 0);
            return;
        }
        self.sweep_case(prefix, suffix, &set, &multi, 0);
    }

    /// Run `prefix c suffix` for every point c; expected: token `rule0` (or the first class of
    /// `multi` containing c) over `prefix c` / `c suffix`, else InvalidToken at 0.
    fn sweep_case(&mut self, prefix: &str, suffix: &str, set: &crate::iset::ISet, multi: &[crate::iset::ISet], rule0: usize) {
        let set = set.clone();
        let ctx_mode = prefix == "a" && self.l.spec.sets[0].rules[0].ctx.is_some();
        let mut points: Vec<u32> = vec![];
        if self.plan.sweep_all {
            points.extend((0..=0x10FFFFu32).filter(|c| char::from_u32(*c).is_some()));
        } else {
            let mut cuts: std::collections::BTreeSet<u32> = [0u32, 0x7F, 0x80, 0xD7FF, 0xE000, 0x10FFFF, 'a' as u32, 'x' as u32].into_iter().collect();
            for (s, e) in &set {
                cuts.insert(*s);
                cuts.insert(*e);
            }
            if let Some(d) = self.l.dump {
                for st in d.states.iter().chain(d.ctxs.iter().flatten()) {
                    for (c, _) in &st.chars {
                        cuts.insert(*c);
                    }
                    for (s, e, _) in &st.ranges {
                        cuts.insert(*s);
                        cuts.insert(*e);
                    }
                }
            }
            let mut ps = std::collections::BTreeSet::new();
            for c in cuts {
                for d in -2i64..=2 {
                    let q = c as i64 + d;
                    if q >= 0 && q <= 0x10FFFF && char::from_u32(q as u32).is_some() {
                        ps.insert(q as u32);
                    }
                }
            }
            points.extend(ps);
        }
        let mut input = String::new();
        for q in points {
            let c = char::from_u32(q).unwrap();
            input.clear();
            input.push_str(prefix);
            input.push(c);
            input.push_str(suffix);
            let args = RunArgs { input: &input, script: &[], ctor: self.plan.ctors[0], probes: false, nones: 1, no_text: true, split: 0 };
            let (t, _, _) = (self.l.runner)(&args, &Mode::Plain);
            self.c.executions += 1;
            let winner: Option<usize> = if multi.is_empty() { if crate::iset::contains(&set, q) { Some(rule0) } else { None } } else { multi.iter().position(|s| crate::iset::contains(s, q)) };
            let member = winner.is_some();
            if member {
                self.c.rewinds += 1; // counts members seen (non-vacuity), reported under its own name
            }
            let lexeme_end = if ctx_mode { prefix.len() } else { input.len() };
            let ok = match t.first().map(|s| &s.item) {
                Some(Item::Tok(a, r, b)) => Some(*r) == winner && a.byte_idx == 0 && b.byte_idx == lexeme_end,
                Some(Item::Invalid(l)) => !member && l.byte_idx == 0,
                _ => false,
            };
            if !ok {
                self.viol(
                    &input,
                    &[],
                    self.plan.ctors[0],
                    (
                        format!("U+{q:04X} is {}a member of the class but the generated lexer {}", if member { "" } else { "not " }, if member { "does not match it" } else { "matches it" }),
                        if let Some(w) = winner { format!("token {w} over bytes 0..{lexeme_end}") } else { "InvalidToken at 0".into() },
                        format!("{:?}", t.first().map(|s| &s.item)),
                    ),
                );
                if self.viols.len() >= 3 {
                    return;
                }
            }
        }
    }

    /// Deviation-bounded exploration of action scripts (CHESS-style): default answers first,
    /// then every single departure at every reachable invocation, then pairs, …
    fn explore_scripts(&mut self, input: &str, prefix: Vec<u8>, devs: usize) {
        let n_actions = self.execute(input, &prefix);
        self.c.max_dev_reached = self.c.max_dev_reached.max(devs);
        if devs >= self.plan.max_dev || input.len() > 64 {
            return;
        }
        let limit = n_actions.min(self.plan.dev_positions);
        for pos in prefix.len()..limit {
            for &d in &self.menu.clone() {
                let mut s = prefix.clone();
                while s.len() < pos {
                    s.push(D_DEFAULT);
                }
                s.push(d);
                self.explore_scripts(input, s, devs + 1);
            }
        }
    }
}

pub struct BatchReport {
    pub counters: Counters,
    pub violations: Vec<Violation>,
    pub drift_samples: Vec<String>,
    pub lexers: usize,
    pub inputs: usize,
    pub samples: Vec<Value>,
}

pub fn all_inputs(plan: &Plan) -> Vec<String> {
    let mut v = crate::enumerate::inputs(plan.max_len, &plan.alphabet);
    v.extend(plan.extra_inputs.iter().cloned());
    v
}

/// What each worker thread is executing right now (for the watchdog): (lexer, input, script, since ms).
static CURRENT: Mutex<Vec<Option<(usize, String, Vec<u8>, u64)>>> = Mutex::new(Vec::new());

fn now_ms() -> u64 {
    static T0: std::sync::OnceLock<std::time::Instant> = std::sync::OnceLock::new();
    T0.get_or_init(std::time::Instant::now).elapsed().as_millis() as u64
}

/// A `next()` call that does not return is an observation, not a harness failure: a watchdog
/// thread prints which execution is stuck (as JSON on stdout) and ends the process with code 3.
fn start_watchdog(limit_ms: u64) {
    static STARTED: std::sync::Once = std::sync::Once::new();
    STARTED.call_once(|| {
        std::thread::spawn(move || loop {
            std::thread::sleep(std::time::Duration::from_millis(500));
            let g = CURRENT.lock().unwrap();
            for slot in g.iter().flatten() {
                // backtracking lexers are legitimately quadratic on pumped inputs: give long inputs longer
                let limit = if slot.1.len() > 1000 { limit_ms * 10 } else { limit_ms };
                if now_ms().saturating_sub(slot.3) > limit {
                    println!("{}", json!({"hang": {"lexer": slot.0, "input": slot.1.chars().take(200).collect::<String>(), "input_len": slot.1.len(), "script_raw": slot.2}}));
                    std::process::exit(3);
                }
            }
        });
    });
}

pub fn run_batch(plan: &Plan, lexers: &[LexerUnderTest], first_idx: usize, threads: usize) -> BatchReport {
    // targeted replay: a single input and script given through the environment
    let replay: Option<(String, Vec<u8>)> = std::env::var("VERIF_REPLAY_INPUT").ok().map(|i| {
        let s = std::env::var("VERIF_REPLAY_SCRIPT").unwrap_or_default();
        (i, s.split(',').filter(|x| !x.is_empty()).map(|x| x.parse().unwrap()).collect())
    });
    let inputs = match &replay {
        Some((i, _)) => vec![i.clone()],
        None => all_inputs(plan),
    };
    let replay_script = replay.map(|r| r.1);
    let next = AtomicUsize::new(0);
    let agg: Mutex<(Counters, Vec<Violation>, Vec<String>, Vec<Value>)> = Mutex::new((Counters::default(), vec![], vec![], vec![]));
    // silence panic messages of explored lexers (they are observations)
    std::panic::set_hook(Box::new(|_| {}));
    {
        let mut g = CURRENT.lock().unwrap();
        g.clear();
        g.resize(threads.max(1), None);
    }
    start_watchdog(std::env::var("VERIF_HANG_MS").ok().and_then(|s| s.parse().ok()).unwrap_or(20_000));
    let slot_counter = AtomicUsize::new(0);
    std::thread::scope(|s| {
        for _ in 0..threads.max(1) {
            s.spawn(|| loop {
                thread_local! { static SLOT: std::cell::Cell<usize> = std::cell::Cell::new(usize::MAX); }
                if SLOT.with(|s| s.get()) == usize::MAX {
                    SLOT.with(|s| s.set(slot_counter.fetch_add(1, Ordering::SeqCst)));
                }
                let slot = SLOT.with(|s| s.get());
                let i = next.fetch_add(1, Ordering::SeqCst);
                if i >= lexers.len() {
                    CURRENT.lock().unwrap()[slot] = None;
                    break;
                }
                let l = &lexers[i];
                let mut ex = Explorer {
                    slot: Some(slot),
                    plan,
                    l,
                    idx: first_idx + i,
                    menu: menu_for(l.spec),
                    c: Counters::default(),
                    outcomes: HashSet::new(),
                    mstates: HashSet::new(),
                    viols: vec![],
                    drift_sample: None,
                };
                if let Some(script) = &replay_script {
                    for input in &inputs {
                        ex.execute(input, script);
                    }
                } else if plan.proj == Proj::ClassSweep {
                    ex.sweep();
                } else {
                    for input in &inputs {
                        ex.explore_scripts(input, vec![], 0);
                        if ex.viols.len() >= 3 {
                            break;
                        }
                    }
                }
                let mut g = agg.lock().unwrap();
                let c = &mut g.0;
                c.executions += ex.c.executions;
                c.steps += ex.c.steps;
                c.rewinds += ex.c.rewinds;
                c.errors += ex.c.errors;
                c.customs += ex.c.customs;
                c.switches += ex.c.switches;
                c.eoi_matches += ex.c.eoi_matches;
                c.latitude_used += ex.c.latitude_used;
                c.m_validated += ex.c.m_validated;
                c.m_drift += ex.c.m_drift;
                c.m_transitions += ex.c.m_transitions;
                c.m_states += ex.mstates.len() as u64;
                c.distinct_outcomes += ex.outcomes.len() as u64;
                c.clone_points += ex.c.clone_points;
                c.interleavings += ex.c.interleavings;
                c.max_dev_reached = c.max_dev_reached.max(ex.c.max_dev_reached);
                g.1.extend(ex.viols);
                if let Some(d) = ex.drift_sample {
                    if g.2.len() < 5 {
                        g.2.push(format!("lexer {}: {}", first_idx + i, d));
                    }
                }
                if g.3.len() < 3 {
                    // a sample: the definition, one input and the trace it gave
                    let input = inputs.iter().find(|s| s.chars().count() >= 3).cloned().unwrap_or_default();
                    let args = RunArgs { input: &input, script: &[], ctor: plan.ctors[0], probes: true, nones: 2, no_text: false, split: 0 };
                    let (t, _, _) = (l.runner)(&args, &Mode::Plain);
                    g.3.push(json!({"definition": l.spec.describe(), "input": input, "script": "default", "trace": format!("{:?}", t.iter().map(|s| &s.item).collect::<Vec<_>>())}));
                }
            });
        }
    });
    let _ = std::panic::take_hook();
    let (counters, violations, drift_samples, samples) = agg.into_inner().unwrap();
    BatchReport { counters, violations, drift_samples, lexers: lexers.len(), inputs: inputs.len(), samples }
}

pub fn report_json(plan: &Plan, r: &BatchReport, specs: &[Spec], first_idx: usize) -> Value {
    let c = &r.counters;
    json!({
        "prop": plan.prop,
        "lexers": r.lexers,
        "inputs_per_lexer": r.inputs,
        "max_len": plan.max_len,
        "alphabet": plan.alphabet.iter().map(|c| c.escape_default().to_string()).collect::<Vec<_>>(),
        "max_dev": plan.max_dev,
        "dev_positions": plan.dev_positions,
        "ctors": plan.ctors,
        "executions": c.executions,
        "steps": c.steps,
        "rewinds": c.rewinds,
        "errors": c.errors,
        "customs": c.customs,
        "switches": c.switches,
        "eoi_matches": c.eoi_matches,
        "latitude_used": c.latitude_used,
        "m_validated": c.m_validated,
        "m_drift": c.m_drift,
        "m_states": c.m_states,
        "m_transitions": c.m_transitions,
        "distinct_outcomes": c.distinct_outcomes,
        "clone_points": c.clone_points,
        "interleavings": c.interleavings,
        "max_dev_reached": c.max_dev_reached,
        "drift_samples": r.drift_samples,
        "samples": r.samples,
        "violations": r.violations.iter().map(|v| {
            let spec = &specs[v.lexer - first_idx];
            json!({
                "lexer": v.lexer,
                "family": spec.family,
                "definition": spec.print_rules(""),
                "input": v.input,
                "script": v.script.iter().map(|d| show_decision(*d)).collect::<Vec<_>>(),
                "script_raw": v.script,
                "ctor": v.ctor,
                "what": v.what,
                "expected": v.expected,
                "observed": v.observed,
            })
        }).collect::<Vec<_>>(),
    })
}

// ------------------------------------------------------------------ batch entry point

/// Global lexer ids: groups are flattened in order.
pub fn flatten(groups: &[crate::families::Group]) -> Vec<(usize, usize)> {
    let mut v = vec![];
    for (g, grp) in groups.iter().enumerate() {
        for i in 0..grp.specs.len() {
            v.push((g, i));
        }
    }
    v
}

/// `main` of a generated batch binary: `lexers` = (global id, runner) of the lexers compiled in.
pub fn batch_main(prop: &str, tier: &str, lexers: &[(usize, Runner)]) {
    let groups = crate::families::groups(prop, tier);
    let flat = flatten(&groups);
    let dump_dir = std::env::var("VERIF_DUMP_DIR").ok();
    let threads: usize = std::env::var("VERIF_THREADS").ok().and_then(|s| s.parse().ok()).unwrap_or(4);
    let mut out = vec![];
    let mut dump_errors: Vec<String> = vec![];
    for (g, grp) in groups.iter().enumerate() {
        let mine: Vec<&(usize, Runner)> = lexers.iter().filter(|(gid, _)| flat[*gid].0 == g).collect();
        if mine.is_empty() {
            continue;
        }
        let dumps: Vec<Option<Dump>> = mine
            .iter()
            .map(|(gid, _)| {
                let dir = dump_dir.as_ref()?;
                let text = std::fs::read_to_string(format!("{dir}/L{gid}.dump")).ok()?;
                match Dump::parse(&text) {
                    Ok(d) => Some(d),
                    Err(e) => {
                        dump_errors.push(format!("L{gid}: {e}"));
                        None
                    }
                }
            })
            .collect();
        let specs: Vec<Spec> = mine.iter().map(|(gid, _)| grp.specs[flat[*gid].1].clone()).collect();
        let luts: Vec<LexerUnderTest> = mine.iter().enumerate().map(|(k, (_, runner))| LexerUnderTest { spec: &specs[k], runner: *runner, dump: dumps[k].as_ref() }).collect();
        // run each lexer with its own global id for reporting
        let mut rep = run_batch(&grp.plan, &luts, 0, threads);
        for v in rep.violations.iter_mut() {
            v.lexer = v.lexer; // local index into `specs`
        }
        let mut j = report_json(&grp.plan, &rep, &specs, 0);
        // rewrite local lexer indices to global ids
        if let Some(vs) = j.get_mut("violations").and_then(|v| v.as_array_mut()) {
            for v in vs {
                let local = v["lexer"].as_u64().unwrap() as usize;
                v["lexer"] = json!(mine[local].0);
            }
        }
        j["group"] = json!(g);
        j["dumps_loaded"] = json!(dumps.iter().filter(|d| d.is_some()).count());
        out.push(j);
    }
    println!("{}", json!({"groups": out, "dump_errors": dump_errors}));
}
