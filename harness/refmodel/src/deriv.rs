//! Brzozowski derivatives with ACI-normalising smart constructors. Symbols are scalar values plus
//! the end-of-input marker.

use crate::iset::{self, ISet};
use crate::re::{class_of, Env, Re};
use std::collections::BTreeSet;
use std::rc::Rc;

#[derive(Clone, Debug, PartialEq, Eq, Hash, PartialOrd, Ord)]
pub enum D {
    Empty,
    Eps,
    Class(Rc<ISet>),
    Eoi,
    Cat(Rc<D>, Rc<D>),
    Alt(Vec<D>),
    Star(Rc<D>),
}

#[derive(Clone, Copy, Debug, PartialEq, Eq, Hash, PartialOrd, Ord)]
pub enum Sym {
    Ch(u32),
    Eoi,
}

impl Sym {
    pub fn show(self) -> String {
        match self {
            Sym::Eoi => "$".to_string(),
            Sym::Ch(c) => char::from_u32(c).map(|c| c.escape_default().to_string()).unwrap_or("?".into()),
        }
    }
}

pub fn cat(a: D, b: D) -> D {
    match (a, b) {
        (D::Empty, _) | (_, D::Empty) => D::Empty,
        (D::Eps, b) => b,
        (a, D::Eps) => a,
        (D::Cat(x, y), b) => cat((*x).clone(), cat((*y).clone(), b)),
        (a, b) => D::Cat(Rc::new(a), Rc::new(b)),
    }
}

pub fn alt(a: D, b: D) -> D {
    let mut v: BTreeSet<D> = BTreeSet::new();
    for x in [a, b] {
        match x {
            D::Empty => {}
            D::Alt(xs) => v.extend(xs),
            x => {
                v.insert(x);
            }
        }
    }
    match v.len() {
        0 => D::Empty,
        1 => v.into_iter().next().unwrap(),
        _ => D::Alt(v.into_iter().collect()),
    }
}

pub fn star(a: D) -> D {
    match a {
        D::Empty | D::Eps => D::Eps,
        D::Star(x) => D::Star(x),
        a => D::Star(Rc::new(a)),
    }
}

fn class(s: ISet) -> D {
    if s.is_empty() {
        D::Empty
    } else {
        D::Class(Rc::new(s))
    }
}

pub fn from_re(r: &Re, env: &Env) -> D {
    match r {
        Re::Eoi => D::Eoi,
        Re::Char(_) | Re::Set(_) | Re::Any | Re::Builtin(_) | Re::Diff(..) => {
            class(class_of(r, env).unwrap_or_else(|| panic!("not a class: {r:?}")))
        }
        Re::Var(v) => from_re(env.get(v).unwrap_or_else(|| panic!("unbound {v}")), env),
        Re::Str(s) => s.chars().rev().fold(D::Eps, |acc, c| cat(class(vec![(c as u32, c as u32)]), acc)),
        Re::Star(x) => star(from_re(x, env)),
        Re::Plus(x) => {
            let d = from_re(x, env);
            cat(d.clone(), star(d))
        }
        Re::Opt(x) => alt(D::Eps, from_re(x, env)),
        Re::Cat(x, y) => cat(from_re(x, env), from_re(y, env)),
        Re::Alt(x, y) => alt(from_re(x, env), from_re(y, env)),
    }
}

pub fn nullable(d: &D) -> bool {
    match d {
        D::Empty | D::Class(_) | D::Eoi => false,
        D::Eps | D::Star(_) => true,
        D::Cat(a, b) => nullable(a) && nullable(b),
        D::Alt(v) => v.iter().any(nullable),
    }
}

pub fn deriv(d: &D, s: Sym) -> D {
    match d {
        D::Empty | D::Eps => D::Empty,
        D::Class(set) => match s {
            Sym::Ch(c) if iset::contains(set, c) => D::Eps,
            _ => D::Empty,
        },
        D::Eoi => {
            if s == Sym::Eoi {
                D::Eps
            } else {
                D::Empty
            }
        }
        D::Cat(a, b) => {
            let left = cat(deriv(a, s), (**b).clone());
            if nullable(a) {
                alt(left, deriv(b, s))
            } else {
                left
            }
        }
        D::Alt(v) => v.iter().fold(D::Empty, |acc, x| alt(acc, deriv(x, s))),
        D::Star(a) => cat(deriv(a, s), D::Star(a.clone())),
    }
}

/// Is the language empty? With the smart constructors above `Empty` is the only term denoting the
/// empty language (classes are never empty, `cat`/`alt` absorb `Empty`).
pub fn is_empty(d: &D) -> bool {
    *d == D::Empty
}

/// Interval end points mentioned by a derivative (for symbol-class partitioning).
pub fn cuts_of(d: &D, out: &mut BTreeSet<u32>) {
    match d {
        D::Class(set) => {
            for (s, e) in set.iter() {
                out.insert(*s);
                out.insert(e + 1);
            }
        }
        D::Cat(a, b) => {
            cuts_of(a, out);
            cuts_of(b, out);
        }
        D::Alt(v) => {
            for x in v {
                cuts_of(x, out)
            }
        }
        D::Star(a) => cuts_of(a, out),
        _ => {}
    }
}

/// Can `d` be extended by at least one symbol (a scalar value or `$`) to something non-empty?
pub fn has_extension(ds: &[D]) -> bool {
    if ds.iter().any(|d| !is_empty(&deriv(d, Sym::Eoi))) {
        return true;
    }
    let mut cuts = BTreeSet::new();
    cuts.insert(0u32);
    for d in ds {
        cuts_of(d, &mut cuts);
    }
    for c in cuts {
        if c > iset::MAX_CP {
            continue;
        }
        let c = if (0xD800..=0xDFFF).contains(&c) { 0xE000 } else { c };
        if ds.iter().any(|d| !is_empty(&deriv(d, Sym::Ch(c)))) {
            return true;
        }
    }
    false
}

// ------------------------------------------------------------------ naive matcher (oracle for the oracle)

/// Exponential backtracking matcher, written directly from the operator meanings. `eoi` says
/// whether the end of `s` is the end of the input (so that `$` can match there).
pub fn naive_match(r: &Re, env: &Env, s: &[char], eoi: bool) -> bool {
    // returns the set of suffix start positions reachable after matching a prefix of s[from..];
    // position len+1 stands for "consumed the end-of-input marker".
    fn go(r: &Re, env: &Env, s: &[char], eoi: bool, from: usize) -> BTreeSet<usize> {
        let n = s.len();
        let mut out = BTreeSet::new();
        match r {
            Re::Eoi => {
                if from == n && eoi {
                    out.insert(n + 1);
                }
            }
            Re::Char(_) | Re::Set(_) | Re::Any | Re::Builtin(_) | Re::Diff(..) => {
                let set = class_of(r, env).unwrap();
                if from < n && iset::contains(&set, s[from] as u32) {
                    out.insert(from + 1);
                }
            }
            Re::Var(v) => return go(env.get(v).unwrap(), env, s, eoi, from),
            Re::Str(t) => {
                let t: Vec<char> = t.chars().collect();
                if from <= n && from + t.len() <= n && s[from..from + t.len()] == t[..] {
                    out.insert(from + t.len());
                }
            }
            Re::Opt(x) => {
                out.insert(from);
                out.extend(go(x, env, s, eoi, from));
            }
            Re::Star(x) | Re::Plus(x) => {
                let mut seen: BTreeSet<usize> = BTreeSet::new();
                let mut frontier: Vec<usize> = vec![from];
                let mut first = true;
                while let Some(p) = frontier.pop() {
                    for q in go(x, env, s, eoi, p) {
                        if seen.insert(q) {
                            frontier.push(q);
                        }
                    }
                    if first {
                        first = false;
                    }
                }
                out = seen;
                if matches!(r, Re::Star(_)) {
                    out.insert(from);
                }
            }
            Re::Cat(x, y) => {
                for p in go(x, env, s, eoi, from) {
                    out.extend(go(y, env, s, eoi, p));
                }
            }
            Re::Alt(x, y) => {
                out.extend(go(x, env, s, eoi, from));
                out.extend(go(y, env, s, eoi, from));
            }
        }
        out
    }
    let ends = go(r, env, s, eoi, 0);
    // a full match consumes all of s, and, if it used `$`, the marker too
    ends.contains(&s.len()) || ends.contains(&(s.len() + 1))
}

/// Derivative-based full match of `s` (+ `$` if `with_eoi`): accepts if nullable after all of
/// `s`, or nullable after `s` followed by the end-of-input marker (when `eoi`).
pub fn deriv_match(r: &Re, env: &Env, s: &[char], eoi: bool) -> bool {
    let mut d = from_re(r, env);
    for &c in s {
        d = deriv(&d, Sym::Ch(c as u32));
        if is_empty(&d) {
            return false;
        }
    }
    nullable(&d) || (eoi && nullable(&deriv(&d, Sym::Eoi)))
}

#[cfg(test)]
mod tests {
    use super::{deriv_match, naive_match};
    use crate::re::*;
    #[test]
    fn basic() {
        let env = Env::new();
        let r = cat(plus(ch('a')), ch('b'));
        let s: Vec<char> = "aab".chars().collect();
        assert!(deriv_match(&r, &env, &s, false));
        assert!(naive_match(&r, &env, &s, false));
        let r = cat(ch('a'), Re::Eoi);
        assert!(deriv_match(&r, &env, &['a'], true));
        assert!(!deriv_match(&r, &env, &['a'], false));
        assert!(naive_match(&r, &env, &['a'], true));
        assert!(!naive_match(&r, &env, &['a'], false));
    }
}
