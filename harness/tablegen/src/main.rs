//! C18: the real `generate_char_fn_ranges` of crates/char_range_gen (reached through the
//! cfg(lexgen_verif) entry points) on every predicate of a boundary family, against maximal runs
//! computed on the segment representation.
#![allow(dead_code, unused)]

#[path = "/repo/crates/char_range_gen/src/main.rs"]
mod gen;

use refmodel::serde_json::{json, Value};
use std::cell::Cell;
use std::sync::atomic::{AtomicUsize, Ordering};
use std::sync::Mutex;

/// Elementary segments between the cut points 0, 1, 7F, 80, D7FE, D7FF, E000, E001, 10FFFE, 10FFFF
/// (scalar values only; D7FF and E000 are neighbours).
const SEGS: [(u32, u32); 10] = [
    (0, 0),
    (1, 0x7E),
    (0x7F, 0x7F),
    (0x80, 0xD7FD),
    (0xD7FE, 0xD7FE),
    (0xD7FF, 0xD7FF),
    (0xE000, 0xE000),
    (0xE001, 0x10FFFD),
    (0x10FFFE, 0x10FFFE),
    (0x10FFFF, 0x10FFFF),
];

thread_local! {
    static MASK: Cell<u32> = Cell::new(0);
}

fn seg_of(c: u32) -> usize {
    SEGS.iter().position(|(s, e)| *s <= c && c <= *e).unwrap()
}

fn pred(c: char) -> bool {
    let m = MASK.with(|m| m.get());
    (m >> seg_of(c as u32)) & 1 == 1
}

fn expected(mask: u32) -> Vec<(u32, u32)> {
    let mut out: Vec<(u32, u32)> = vec![];
    let mut open: Option<u32> = None;
    for (k, (s, e)) in SEGS.iter().enumerate() {
        let on = (mask >> k) & 1 == 1;
        if on && open.is_none() {
            open = Some(*s);
        }
        let next_on = k + 1 < SEGS.len() && (mask >> (k + 1)) & 1 == 1;
        if on && !next_on {
            out.push((open.take().unwrap(), *e));
        }
    }
    out
}

fn invariants(r: &[(u32, u32)]) -> Option<String> {
    for &(s, e) in r {
        if s > e {
            return Some(format!("inverted range ({s:#x},{e:#x})"));
        }
        if char::from_u32(s).is_none() || char::from_u32(e).is_none() {
            return Some(format!("end point of ({s:#x},{e:#x}) is not a scalar value"));
        }
    }
    for w in r.windows(2) {
        let next_scalar = if w[0].1 == 0xD7FF { 0xE000 } else { w[0].1 + 1 };
        if w[1].0 <= w[0].1 {
            return Some(format!("ranges ({:#x},{:#x}) ({:#x},{:#x}) overlap or are unsorted", w[0].0, w[0].1, w[1].0, w[1].1));
        }
        if w[1].0 == next_scalar {
            return Some(format!("ranges ({:#x},{:#x}) ({:#x},{:#x}) are adjacent (not maximal)", w[0].0, w[0].1, w[1].0, w[1].1));
        }
    }
    None
}

fn show_mask(mask: u32) -> String {
    let segs: Vec<String> = (0..SEGS.len()).filter(|k| (mask >> k) & 1 == 1).map(|k| format!("{:X}..={:X}", SEGS[k].0, SEGS[k].1)).collect();
    format!("predicate true exactly on [{}]", segs.join(", "))
}

fn main() {
    let a: Vec<String> = std::env::args().collect();
    let bits: u32 = a.get(1).and_then(|s| s.parse().ok()).unwrap_or(10);
    let t0 = std::time::Instant::now();
    let masks: Vec<u32> = if bits >= 10 {
        (0..1024).collect()
    } else {
        // quick subset: all combinations of the segments around the gap and at both ends, rest off/on
        (0..1024u32).filter(|m| (m >> 1) & 1 == (m >> 3) & 1 && (m >> 3) & 1 == (m >> 7) & 1).collect()
    };
    let next = AtomicUsize::new(0);
    let viols: Mutex<Vec<Value>> = Mutex::new(vec![]);
    let nontrivial = AtomicUsize::new(0);
    let distinct: Mutex<std::collections::HashSet<Vec<(u32, u32)>>> = Mutex::new(Default::default());
    std::thread::scope(|s| {
        for _ in 0..16 {
            s.spawn(|| loop {
                let i = next.fetch_add(1, Ordering::SeqCst);
                if i >= masks.len() {
                    break;
                }
                let mask = masks[i];
                MASK.with(|m| m.set(mask));
                let got = std::panic::catch_unwind(|| gen::verif_generate_char_fn_ranges(pred));
                let exp = expected(mask);
                if exp.len() >= 2 || exp.iter().any(|r| r.1 == 0x10FFFF || r.1 == 0xD7FF || r.0 == 0xE000) {
                    nontrivial.fetch_add(1, Ordering::Relaxed);
                }
                let bad = match &got {
                    Err(_) => Some("generator panicked".to_string()),
                    Ok(g) => invariants(g).or_else(|| if *g != exp { Some(format!("expected {exp:x?}")) } else { None }),
                };
                if let Ok(g) = &got {
                    distinct.lock().unwrap().insert(g.clone());
                }
                if let Some(b) = bad {
                    let mut v = viols.lock().unwrap();
                    if v.len() < 20 {
                        v.push(json!({"kind": "generator", "definition": show_mask(mask), "input": format!("mask {mask:#012b}"), "detail": format!("{b}; generated {:x?}", got.ok())}));
                    }
                }
            });
        }
    });
    let mut viols = viols.into_inner().unwrap();
    // the 20 real predicates: generator vs a direct scan, and names vs the documented list
    let mut real = vec![];
    let fns = gen::verif_fns();
    let names: Vec<&str> = refmodel::builtins::builtin_names();
    for (f, name) in fns.iter() {
        let got = gen::verif_generate_char_fn_ranges(*f);
        // direct scan with runs merged across the gap
        let scan = refmodel::builtins::scan_pred(|c| f(c));
        let mut merged: Vec<(u32, u32)> = vec![];
        for (s, e) in scan {
            if let Some(l) = merged.last_mut() {
                if l.1 == 0xD7FF && s == 0xE000 {
                    l.1 = e;
                    continue;
                }
            }
            merged.push((s, e));
        }
        let bad = invariants(&got).or_else(|| if got != merged { Some("differs from a direct scan".to_string()) } else { None });
        if let Some(b) = bad {
            viols.push(json!({"kind": "generator", "definition": format!("real predicate {name}"), "input": null, "detail": b}));
        }
        // the generator's (function, NAME) pairing against the documented predicate of that name
        let doc = names.iter().find(|n| n.to_uppercase() == *name).and_then(|n| refmodel::builtins::pred_of(n));
        match doc {
            None => viols.push(json!({"kind": "generator-names", "definition": format!("table {name}"), "input": null, "detail": "no documented built-in of that name"})),
            Some(p) => {
                let differs = (0..=0x10FFFFu32).filter_map(char::from_u32).find(|c| p(*c) != f(*c));
                if let Some(c) = differs {
                    viols.push(json!({"kind": "generator-names", "definition": format!("table {name}"), "input": c.to_string(), "detail": "the function listed for this table is not the documented predicate"}));
                }
            }
        }
        real.push(json!({"name": name, "ranges": got.len()}));
    }
    let out = json!({
        "predicates": masks.len(),
        "predicate_calls": masks.len() as u64 * 1_112_064,
        "nontrivial": nontrivial.into_inner(),
        "distinct_tables": distinct.into_inner().unwrap().len(),
        "real_predicates": real,
        "samples": [
            {"predicate": show_mask(0b1111111111), "expected": format!("{:x?}", expected(0b1111111111))},
            {"predicate": show_mask(0b0000110000), "expected": format!("{:x?}", expected(0b0000110000))},
            {"predicate": show_mask(0b1001100101), "expected": format!("{:x?}", expected(0b1001100101))},
        ],
        "violations": viols,
        "wall_s": t0.elapsed().as_secs_f64(),
    });
    println!("{out}");
}
