fn main(){}
