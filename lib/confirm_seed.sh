#!/bin/bash
# confirm_seed.sh <worktree> <patch.diff> <demo test name (file in crates/lexgen/tests without .rs)>
# Confirms in the scratch worktree: demo passes without the change, fails with it, and the
# repository's own suite (demo files moved aside) still passes with it.
set -u
WT=$1; PATCH=$2; DEMO=$3
export CARGO_NET_OFFLINE=true
cd $WT || exit 2
git checkout -q -- crates 2>/dev/null
demo() { cargo test --offline -p lexgen --test $DEMO 2>&1 | grep -E "^test result|error(\[|:)|panicked" | head -5; }
echo "== demo on the unchanged tree"; demo
git apply $PATCH || { echo "PATCH DOES NOT APPLY"; exit 3; }
echo "== demo with the change"; demo
mkdir -p /tmp/demo-aside-$$ && mv crates/lexgen/tests/seeded_demo_*.rs /tmp/demo-aside-$$/
echo "== repository suite with the change"
cargo test --workspace --no-fail-fast --offline 2>&1 | grep -E "^test result" | awk '{p+=$4; f+=$6} END {print "passed="p" failed="f}'
mv /tmp/demo-aside-$$/*.rs crates/lexgen/tests/; rmdir /tmp/demo-aside-$$
git checkout -q -- crates
