#!/bin/bash
# process_seeds2.sh P : round-2 agent output /tmp/out${R}-P, worktree /tmp/wt${R}-P ; registers P-3, P-4
P=$1; R=${2:-2}; OFF=${3:-2}
for n in 1 2; do
  [ -f /tmp/out${R}-$P/change_$n.diff ] || continue
  id=$P-$((n+OFF))
  echo "#### $id"
  if [ -f /tmp/wt${R}-$P/crates/lexgen/tests/seeded_demo_$n.rs ]; then
    /verif/lib/confirm_seed.sh /tmp/wt${R}-$P /tmp/out${R}-$P/change_$n.diff seeded_demo_$n 2>&1 | grep -E "^==|test result|passed=|DOES NOT|could not compile" > /tmp/confirm-$id.txt
  else
    echo "demo is not an in-tree test: confirm manually" > /tmp/confirm-$id.txt
  fi
  cat /tmp/confirm-$id.txt
  /verif/lib/add_seed.py $id $P /tmp/out${R}-$P $n -
  cp /tmp/confirm-$id.txt /verif/seeded/$id/confirmation.txt
done
