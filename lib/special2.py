"""C12 (expansion terminates, deterministic, compiles) and C17 (ill-formed definitions rejected); replay."""
import json, os, re, shutil, subprocess, sys, time
import vlib
from vlib import Machinery, log

HEADER = "#![allow(dead_code, unused, non_snake_case, non_camel_case_types, non_upper_case_globals, clippy::all)]\n"


def scratch_crate(name, files):
    d = os.path.join(vlib.WORK, "special", name)
    os.makedirs(os.path.join(d, "src"), exist_ok=True)
    cargo = """[package]
name = "%s"
version = "0.1.0"
edition = "2021"

[dependencies]
lexgen = { path = "/repo/crates/lexgen" }
lexgen_util = { path = "/repo/crates/lexgen_util" }

[workspace]

[profile.release]
opt-level = 0
debug = false
incremental = false

[profile.release.build-override]
opt-level = 3
""" % name
    files = dict(files)
    files["Cargo.toml"] = cargo
    for rel, text in files.items():
        p = os.path.join(d, rel)
        if not os.path.exists(p) or open(p).read() != text:
            open(p, "w").write(text)
    if not os.path.exists(os.path.join(d, "Cargo.lock")):
        shutil.copy("/repo/Cargo.lock", os.path.join(d, "Cargo.lock"))
    return d


def cargo_json(d, sub, timeout, dump_dir=None, target=None):
    env = dict(vlib.ENV)
    env["CARGO_TARGET_DIR"] = target or vlib.TARGET_E2E
    env["RUSTFLAGS"] = "--cfg lexgen_verif"
    if dump_dir:
        os.makedirs(dump_dir, exist_ok=True)
        env["LEXGEN_VERIF_DUMP_DIR"] = dump_dir
    try:
        p = subprocess.run(["cargo", sub, "--offline", "--release", "-j", str(vlib.NCPU), "--message-format=json"], cwd=d, env=env,
                           stdout=subprocess.PIPE, stderr=subprocess.PIPE, text=True, timeout=timeout)
    except subprocess.TimeoutExpired:
        raise Machinery(f"cargo {sub} in {d} exceeded {timeout}s")
    errors = []
    for line in p.stdout.split("\n"):
        if not line.startswith("{"):
            continue
        try:
            m = json.loads(line)
        except Exception:
            continue
        if m.get("reason") != "compiler-message" or m["message"].get("level") != "error":
            continue
        msg = m["message"]
        line_no = None
        for s in msg.get("spans", []):
            cur = s
            while cur is not None:
                if cur.get("file_name", "").startswith("src/"):
                    line_no = cur["line_start"]
                exp = cur.get("expansion")
                cur = exp["span"] if exp else None
        errors.append((line_no, msg.get("message", "")))
    return p.returncode, errors, p.stderr


# ====================================================================== C12

def multi_lexer_modules():
    """Several lexers in one module, each needing search tables (and right contexts, actions)."""
    mods = []
    body = lambda name, b1, b2: (
        f"    lexgen::lexer! {{\n        pub {name} -> usize;\n        $${b1}+ = 0,\n        '!' > $${b2} = 1,\n        $${b2} '?' = 2,\n        _ = 3,\n    }}\n")
    mods.append(("two lexers with table-sized built-ins in one module", "pub mod two {\n" + body("A", "alphabetic", "lowercase") + body("B", "alphanumeric", "uppercase") + "}\n"))
    mods.append(("three lexers with the same built-in in one module", "pub mod three {\n" + body("A", "XID_Start", "XID_Continue") + body("B", "XID_Start", "XID_Continue") + body("C", "numeric", "XID_Start") + "}\n"))
    mods.append(("two lexers at the crate root of a module with rule sets", "pub mod sets {\n"
                 "    lexgen::lexer! {\n        pub A -> usize;\n        rule Init { $$alphabetic+ => |l| l.switch_and_return(ARule::S, 0), }\n        rule S { $$numeric+ => |l| l.switch_and_return(ARule::Init, 1), }\n    }\n"
                 "    lexgen::lexer! {\n        pub B -> usize;\n        rule Init { $$alphabetic+ => |l| l.switch_and_return(BRule::S, 0), }\n        rule S { $$numeric+ => |l| l.switch_and_return(BRule::Init, 1), }\n    }\n}\n"))
    # every rule kind under every form of user state (none, plain, own lifetime, 'input, two lifetimes)
    forms = [
        ("no user state", "", "L -> usize;"),
        ("plain user state", "#[derive(Default, Clone, Debug)] pub struct Plain;", "L(Plain) -> usize;"),
        ("user state with a lifetime", "#[derive(Debug)] pub struct St<'a> { pub s: &'a str }", "pub(crate) L(St<'a>) -> usize;"),
        ("user state using 'input", "#[derive(Debug)] pub struct Inp<'i> { pub s: &'i str }", "pub L(Inp<'input>) -> usize;"),
        ("user state with two lifetimes", "#[derive(Debug)] pub struct Two<'a, 'b> { pub s: &'a str, pub t: &'b mut Vec<u8> }", "L(Two<'a, 'b>) -> usize;"),
    ]
    for i, (what, decl, header) in enumerate(forms):
        mods.append((f"all rule kinds, {what}", f"pub mod form{i} {{\n    {decl}\n"
                     f"    lexgen::lexer! {{\n        /// doc comment\n        #[derive(Debug)]\n        {header}\n        type Error = u32;\n"
                     "        let id = $$XID_Start $$XID_Continue*;\n"
                     "        'a' = 0,\n        'b' => |l| l.return_(1),\n        'c' =? |l| l.return_(Ok(2)),\n        [' ' '\\t']+,\n"
                     "        $id = 3,\n        'd' > ('e' | $) = 4,\n        ['f' 'f' 'g'-'i' 'h'] => |l| { let _ = l.match_(); l.continue_() },\n"
                     "    }\n}\n"))
    mods.append(("token type borrowing the input", "pub mod borrow {\n"
                 "    lexgen::lexer! {\n        pub B -> &'input str;\n        $$alphabetic+ => |l| { let m = l.match_(); l.return_(m) },\n        _,\n    }\n}\n"))
    return mods


def c12(tier):
    t0 = time.time()
    vlib.ensure_harness()
    q = tier == "quick"
    violations, notes = [], []
    cov = {"evaluations": 0, "families": []}
    # --- P: whole pipeline incl. code generation, twice in-process, under the watchdog; the family
    # is then expanded a second time by different worker processes and the code digests compared
    fams = ["stress", "e2e:C01:quick", "e2e:C03:quick", "e2e:C04:quick", "e2e:C05:quick", "e2e:C10:quick", "e2e:C16:quick", "e2e:C11:quick", "e2e:C13:quick",
            "single4_a12", "single5_a6", "pair3_a6", "triple2_a6", "ctx2_2", "eoi2_a6", "rsets_quick", "diff_rules"]
    if not q:
        fams += ["pair3_a12", "ctx2_3", "ctx_pair", "eoi3_a6", "rsets", "rsets_enum", "single5_a12", "triple2_a12", "e2e:C01:thorough", "e2e:C04:thorough"]
    distinct = 0
    for fam in fams:
        r1 = vlib.pexp(["screen", fam, 16], timeout=7200)
        r2 = vlib.pexp(["screen", fam, 5], timeout=7200)
        cov["evaluations"] += r1["defs"] + r2["defs"]
        distinct += r1.get("distinct_dumps", 0)
        cov["families"].append({"family": fam, "definitions": r1["defs"], "max_expansion_ms": round(r1["max_us"] / 1000, 1), "max_code_len": r1["max_code_len"],
                                "hangs": len(r1["hangs"]), "panics": len(r1["panics"]), "digest_equal_across_processes": r1["code_digest"] == r2["code_digest"]})
        for h in r1["hangs"]:
            violations.append({"definition": h.get("definition"), "kind": "hang", "input": None, "family": fam, "what": f"macro expansion does not finish: {h['what']}"})
        for pn in r1["panics"]:
            violations.append({"definition": pn.get("definition"), "kind": "panic", "input": None, "family": fam, "what": f"macro expansion panics on a well-formed definition: {str(pn.get('panic'))[:300]}"})
        for v in r1["violations"]:
            violations.append({"definition": v.get("definition"), "kind": "nondeterministic", "input": None, "family": fam, "what": "two expansions of the same definition in one process differ"})
        if r1["code_digest"] != r2["code_digest"] and not r1["hangs"] and not r2["hangs"]:
            violations.append({"definition": f"family {fam}", "kind": "nondeterministic", "input": None, "family": fam, "what": "expansions in two different processes differ (digest over all generated code)"})
        for s in r1.get("slow", []):
            notes.append(f"{fam}: definition {s['i']} took {s['us'] / 1e6:.1f}s to expand ({s['code_len']} bytes of code)")
    cov["distinct_nontrivial"] = distinct
    # --- E: real macro + rustc. Dedicated shapes; every lexer of the dedicated batch must build.
    e = vlib.run_e2e("C12", tier, build_timeout=1800)
    cov["evaluations"] += e["lexers_total"]
    cov["lexers_built_by_rustc"] = e["lexers_built"]
    cov["lexers_total"] = e["lexers_total"]
    cov["executions_real_code"] = e["counters"]["executions"]
    cov["dumps_bound"] = e["dumps"]["dumps_bound"]
    for nb in e["not_built"] + e["screened_out"]:
        violations.append({"definition": nb.get("definition"), "kind": "does-not-build", "input": None, "what": "well-formed definition does not expand/compile: " + str(nb.get("errors") or nb.get("what"))[:400]})
    for v in e["violations"]:
        violations.append(v)
    if e["dumps"]["dumps_unbound"]:
        print(f"ORCHESTRATION-DRIFT: {len(e['dumps']['dumps_unbound'])} lexers: in-process dump differs from the macro's")
    # several lexers per module, user-state forms
    mods = multi_lexer_modules()
    src = HEADER
    lines = []
    for what, text in mods:
        start = src.count("\n") + 1
        src += text
        lines.append((start, src.count("\n"), what, text))
    src += "fn main() {}\n"
    d = scratch_crate("c12_modules", {"src/main.rs": src})
    dumps1 = os.path.join(d, "dumps1")
    rc, errors, stderr = cargo_json(d, "build", 1800, dump_dir=dumps1)
    cov["evaluations"] += len(mods)
    for ln, msg in errors:
        if msg.startswith("aborting due to") or msg.startswith("could not compile"):
            continue
        hit = [(w, t) for (a, b, w, t) in lines if ln and a <= ln <= b]
        if hit:
            violations.append({"definition": hit[0][1], "kind": "does-not-build", "input": None, "what": f"{hit[0][0]}: {msg[:300]}"})
        else:
            raise Machinery(f"c12_modules: error outside any module: {msg} {stderr[-500:]}")
    # determinism end to end: the real macro expands the same crate again in a fresh target
    # directory; the snapshots it writes must be identical
    if rc == 0:
        t2 = os.path.join(vlib.WORK, "target-c12-second")
        dumps2 = os.path.join(d, "dumps2")
        shutil.rmtree(dumps2, ignore_errors=True)
        shutil.rmtree(os.path.join(t2, "release", ".fingerprint"), ignore_errors=True) if False else None
        # touch the source so the second build really re-expands
        os.utime(os.path.join(d, "src", "main.rs"))
        rc2, errors2, _ = cargo_json(d, "build", 1800, dump_dir=dumps2, target=t2)
        same = True
        for f in sorted(os.listdir(dumps1)):
            p2 = os.path.join(dumps2, f)
            if not os.path.exists(p2) or open(p2).read() != open(os.path.join(dumps1, f)).read():
                same = False
                violations.append({"definition": f"lexer {f}", "kind": "nondeterministic", "input": None, "what": "two expansions by the real macro (separate rustc processes) built different automata"})
        cov["macro_expansions_compared"] = len(os.listdir(dumps1))
    cov["rule"] = ("one evaluation = one definition run through parse -> NFA -> DFA -> backtrack analysis -> simplify -> codegen (twice in one process, and again in a "
                   "different worker process) under a 10 s CPU / 6 GB watchdog, or one lexer compiled by rustc with the real macro; distinct = distinct final automata (dump text)")
    cov["samples"] = [{"family": f["family"], "definitions": f["definitions"], "max_expansion_ms": f["max_expansion_ms"]} for f in cov["families"][:4]] + [{"module": w} for w, _ in mods[:2]]
    cov["notes"] = notes
    cov["exhaustive"] = False
    for n in notes[:5]:
        log("NOTE:", n)
    cov["traces_validated_against_impl"] = e["counters"]["m_validated"]
    return vlib.finish("C12", tier, "exploration", cov, t0, violations, ["rustc/cargo 1.95 trusted", "termination and compile time are decided for the enumerated definitions only"])


# ====================================================================== C17

BASES = [
    # (name, text) — well-formed controls; tokens are separated by single spaces on purpose
    ("plain", "let d = [ '0' - '9' ] ;\nlet w = $d + ;\n$w = 0 ,\n$$alphabetic ( $$alphanumeric | '_' ) * = 1 ,\n[ '\\x20' '\\t' ] + ,\n( _ # 'x' ) > 'y' = 2 ,\n\"ab\" $ = 3 ,"),
    ("sets", "type Error = u32 ;\nlet q = '\"' ;\nrule Init {\n    let a = [ 'a' - 'z' ] ;\n    $a + = 0 ,\n    $q => | l | l . switch ( LRule :: Str ) ,\n}\nrule Str {\n    let s = _ # '\"' ;\n    $s * $q => | l | l . switch_and_return ( LRule :: Init , 1 ) ,\n    $ =? | l | l . return_ ( Err ( 7 ) ) ,\n}"),
    ("diffs", "let v = [ 'a' - 'f' ] # 'c' ;\n( $v | $$ascii_digit ) # [ 'd' '5' ] = 0 ,\n$$ascii_punctuation # '.' # ',' = 1 ,\n_ # $$whitespace = 2 ,"),
]


def tokenize(text):
    return text.replace("\n", " \n ").split(" ")


def render(tokens):
    return " ".join(tokens).replace(" \n ", "\n")


# ---- an independent recogniser of the documented grammar over the space-separated tokens
class Rec:
    def __init__(self, toks):
        self.t = [x for x in toks if x not in ("", "\n")]
        self.i = 0

    def peek(self, k=0):
        return self.t[self.i + k] if self.i + k < len(self.t) else None

    def eat(self, x):
        if self.peek() == x:
            self.i += 1
            return True
        return False

    @staticmethod
    def is_char(t):
        return t is not None and len(t) >= 3 and t[0] == "'" and t[-1] == "'"

    @staticmethod
    def is_str(t):
        return t is not None and len(t) >= 2 and t[0] == '"' and t[-1] == '"'

    @staticmethod
    def is_ident(t):
        return t is not None and re.fullmatch(r"[A-Za-z][A-Za-z0-9_]*", t) is not None and t not in ("let", "rule", "type")

    def re4(self):
        t = self.peek()
        if t == "(":
            self.i += 1
            return self.regex() and self.eat(")")
        if t == "$":
            self.i += 1
            if self.peek() == "$":
                self.i += 1
                if not self.is_ident(self.peek()) and self.peek() not in ("let", "rule", "type"):
                    return False
                self.i += 1
                return True
            if self.is_ident(self.peek()):
                self.i += 1
            return True
        if t is not None and t.startswith("$$"):
            self.i += 1
            return len(t) > 2
        if t is not None and t.startswith("$") and len(t) > 1:
            self.i += 1
            return True
        if t == "_" or self.is_char(t) or self.is_str(t):
            self.i += 1
            return True
        if t == "[":
            self.i += 1
            while self.peek() != "]":
                if not self.is_char(self.peek()):
                    return False
                self.i += 1
                if self.peek() == "-":
                    self.i += 1
                    if not self.is_char(self.peek()):
                        return False
                    self.i += 1
            return self.eat("]")
        return False

    def re3(self):
        if not self.re4():
            return False
        while self.peek() == "#":
            self.i += 1
            if not self.re4():
                return False
        return True

    def re2(self):
        if not self.re3():
            return False
        while self.peek() in ("*", "+", "?"):
            self.i += 1
        return True

    def starts_re(self):
        t = self.peek()
        return t is not None and (t in ("(", "[", "_", "$") or t.startswith("$") or self.is_char(t) or self.is_str(t))

    def re1(self):
        if not self.re2():
            return False
        while self.starts_re():
            if not self.re2():
                return False
        return True

    def regex(self):
        if not self.re1():
            return False
        while self.peek() == "|":
            self.i += 1
            if not self.re1():
                return False
        return True

    def expr(self):
        # our expressions: a literal, or a closure `| l | l . method ( args )` — consumed up to the
        # top-level comma; must be non-empty and balanced
        depth = 0
        n = 0
        while self.peek() is not None:
            t = self.peek()
            if t == "," and depth == 0:
                break
            if t in ("(", "[", "{"):
                depth += 1
            if t in (")", "]", "}"):
                if depth == 0:
                    break
                depth -= 1
            self.i += 1
            n += 1
        return n > 0 and depth == 0

    def rule_or_let(self):
        if self.eat("let"):
            if not self.is_ident(self.peek()):
                return False
            self.i += 1
            return self.eat("=") and self.regex() and self.eat(";")
        if not self.regex():
            return False
        if self.eat(">"):
            if not self.regex():
                return False
        if self.eat(","):
            return True
        if self.eat("=>"):
            return self.expr() and self.eat(",")
        if self.eat("=?"):
            return self.expr() and self.eat(",")
        if self.eat("="):
            if self.eat("?"):
                return self.expr() and self.eat(",")
            return self.expr() and self.eat(",")
        return False

    def item(self):
        if self.eat("type"):
            return self.eat("Error") and self.eat("=") and self.is_ident(self.peek()) and (self.eat(self.peek()) or True) and self.eat(";")
        if self.eat("rule"):
            if not self.is_ident(self.peek()):
                return False
            self.i += 1
            if not self.eat("{"):
                return False
            while self.peek() != "}":
                if self.peek() is None or not self.rule_or_let():
                    return False
            self.i += 1
            self.eat(",")
            return True
        return self.rule_or_let()

    def body(self):
        while self.peek() is not None:
            if not self.item():
                return False
        return True


def recognises(tokens):
    try:
        r = Rec(tokens)
        return r.body()
    except Exception:
        return False


DELIMS = {"(", ")", "[", "]", "{", "}"}


def syntax_mutants(name, text):
    toks = tokenize(text)
    out = []
    assert recognises(toks), f"base {name} not recognised by the reference grammar"
    for i, t in enumerate(toks):
        if t in ("", "\n") or t in DELIMS:
            continue
        for how, new in (("delete", toks[:i] + toks[i + 1:]), ("double", toks[:i + 1] + [t] + toks[i + 1:])):
            if recognises(new):
                continue  # still a definition of the documented grammar: no claim
            # keep rustc's own tokenizer happy: do not create unbalanced delimiters (we never touch them)
            out.append((f"{name}: {how} token {i} {t!r}", render(new)))
    return out


def semantic_mutants():
    out = []
    for name, text in BASES:
        toks = tokenize(text)
        # unbound variable: every use of a variable, one at a time
        for i, t in enumerate(toks):
            if re.fullmatch(r"\$[a-z]\w*", t):
                out.append((f"{name}: unbound variable at token {i}", render(toks[:i] + [t + "_unbound"] + toks[i + 1:]), "unbound"))
            if re.fullmatch(r"\$\$\w+", t):
                out.append((f"{name}: unknown built-in at token {i}", render(toks[:i] + [t + "x"] + toks[i + 1:]), "builtin"))
                out.append((f"{name}: misspelt built-in (case) at token {i}", render(toks[:i] + [t.upper() if t != t.upper() else t.lower()] + toks[i + 1:]), "builtin"))
        # every `let` duplicated right after itself
        lines = text.split("\n")
        for li, l in enumerate(lines):
            if l.strip().startswith("let "):
                out.append((f"{name}: let on line {li} defined twice", "\n".join(lines[:li + 1] + [l] + lines[li + 1:]), "dup-let"))
        # operands of `#` that are not character classes
        for i, t in enumerate(toks):
            if t == "#":
                for bad in ('"ab"', "( 'a' * )", "( 'a' 'b' )", "$", "( 'a' + )", "( 'a' ? )", '""', '"q"', '( "q" )', '"é"'):
                    # replace the right operand (one token or a bracket group)
                    j = i + 1
                    if toks[j] == "[":
                        k = toks.index("]", j)
                    elif toks[j] == "(":
                        k = toks.index(")", j)
                    else:
                        k = j
                    out.append((f"{name}: right operand of # at token {i} replaced by {bad}", render(toks[:j] + bad.split(" ") + toks[k + 1:]), "diff-operand"))
                for bad in ('"ab"', "( 'a' * )", "( 'a' 'b' )", '"q"', '""'):
                    j = i - 1
                    if toks[j] == "]":
                        k = max(x for x in range(j) if toks[x] == "[")
                    elif toks[j] == ")":
                        continue
                    else:
                        k = j
                    out.append((f"{name}: left operand of # at token {i} replaced by {bad}", render(toks[:k] + bad.split(" ") + toks[j + 1:]), "diff-operand"))
    # operands of `#` are validated whatever the other operand denotes (also when the left side is empty)
    for left in ("( 'a' # 'a' )", "( [ 'a' - 'c' ] # [ 'a' - 'z' ] )", "[ ]"):
        for bad, kind in (('"ab"', "diff-operand"), ("( 'a' * )", "diff-operand"), ("$nope", "unbound"), ("$$no_such_builtin", "builtin"), ("$", "diff-operand")):
            out.append((f"left operand {left} (empty class), right operand {bad}", f"( {left} # {bad} ) | 'z' = 0 ,\n'y' = 1 ,", kind))
    plain, sets = BASES[0][1], BASES[1][1]
    out.append(("sets: rule set defined twice", sets + "\nrule Str {\n    'z' = 9 ,\n}", "dup-ruleset"))
    out.append(("sets: Init defined twice", sets + "\nrule Init {\n    'z' = 9 ,\n}", "dup-ruleset"))
    out.append(("sets: first rule set not named Init", sets.replace("rule Init", "rule Start").replace("LRule :: Init", "LRule :: Start"), "init"))
    out.append(("sets: Init is not the first rule set", "rule Other {\n    'z' = 9 ,\n}\n" + sets.replace("type Error = u32 ;\n", "").replace("=? | l | l . return_ ( Err ( 7 ) )", "= 5"), "init"))
    out.append(("sets: unnamed rule before the rule sets", sets.replace("rule Init {", "'z' = 9 ,\nrule Init {"), "mixed"))
    out.append(("sets: unnamed rule after the rule sets", sets + "\n'z' = 9 ,", "mixed"))
    out.append(("sets: error type declared twice", sets.replace("type Error = u32 ;", "type Error = u32 ;\ntype Error = u32 ;"), "error-type"))
    out.append(("sets: error type declared twice (different types)", sets + "\ntype Error = u64 ;", "error-type"))
    out.append(("sets: rule-set local variable used in another rule set", sets.replace("$s * $q", "$s * $a $q"), "scope"))
    out.append(("sets: rule-set local variable used at top level", sets + "\nlet t = $s ;\nrule X {\n    $t = 4 ,\n}", "scope"))
    out.append(("sets: local let shadows a top-level let", sets.replace("let s = _ # '\"' ;", "let s = _ # '\"' ;\n    let q = 'q' ;"), "dup-let"))
    out.append(("sets: rule-set variable used before its let in the same rule set", sets.replace("    let a = [ 'a' - 'z' ] ;\n    $a + = 0 ,", "    $a + = 0 ,\n    let a = [ 'a' - 'z' ] ;"), "unbound"))
    out.append(("plain: variable used before its definition", plain.replace("let w = $d + ;\n$w = 0 ,", "$w = 0 ,\nlet w = $d + ;"), "unbound"))
    out.append(("plain: two variables swapped (use before definition)", plain.replace("let d = [ '0' - '9' ] ;\nlet w = $d + ;", "let w = $d + ;\nlet d = [ '0' - '9' ] ;"), "order"))
    return out


def c17(tier):
    t0 = time.time()
    vlib.ensure_harness()
    violations, notes = [], []
    mutants = []  # (what, body, kind)
    for name, text in BASES:
        for what, body in syntax_mutants(name, text):
            mutants.append((what, body, "syntax"))
    mutants.extend(semantic_mutants())
    # "use before definition" with two lets swapped is accepted by lexgen's lazy substitution and
    # is not one of the listed static rules (the README says variables need to be defined before
    # use, but only for rules): it is recorded, not judged
    judged = [m for m in mutants if m[2] != "order"]
    src = HEADER
    lines = []
    k = 0

    def add(body, what, is_control):
        nonlocal src, k
        start = src.count("\n") + 1
        has_err = "type Error" in body
        src += f"pub mod m{k} {{\n    lexgen::lexer! {{\n        pub L -> usize;\n" + "".join("        " + l + "\n" for l in body.split("\n")) + "    }\n}\n"
        lines.append((start, src.count("\n"), what, body, is_control))
        k += 1

    for i, (what, body, kind) in enumerate(judged):
        if i % 12 == 0:
            b = BASES[(i // 12) % len(BASES)]
            add(b[1], f"control {b[0]}", True)
        add(body, what, False)
    for b in BASES:
        add(b[1], f"control {b[0]}", True)
    src += "fn main() {}\n"
    d = scratch_crate("c17_reject", {"src/main.rs": src})
    rc, errors, stderr = cargo_json(d, "check", 1800)
    per = {}
    for ln, msg in errors:
        if msg.startswith("aborting due to") or msg.startswith("could not compile"):
            continue
        hit = [idx for idx, (a, b, w, t, c) in enumerate(lines) if ln and a <= ln <= b]
        if not hit:
            raise Machinery(f"c17: diagnostic outside any module (line {ln}): {msg[:300]}")
        per.setdefault(hit[0], []).append(msg)
    rejected = 0
    kinds_seen = {}
    for idx, (a, b, what, body, is_control) in enumerate(lines):
        errs = per.get(idx, [])
        if is_control and errs:
            violations.append({"definition": body, "kind": "control-rejected", "input": None, "what": f"{what}: a well-formed definition is rejected: {errs[0][:300]}"})
        if not is_control:
            if errs:
                rejected += 1
            else:
                violations.append({"definition": body, "kind": "accepted", "input": None, "what": f"ill-formed definition silently accepted by the macro: {what}"})
    # in-process cross-check (parser and regex compiler only; lib.rs is covered by the real macro above)
    os.makedirs(os.path.join(d, "bodies"), exist_ok=True)
    cov = {
        "evaluations": len(lines),
        "distinct_nontrivial": len(set(b for (_, _, _, b, c) in lines if not c)),
        "rule": "from 3 well-formed base definitions: every single-token deletion and doubling (delimiters excepted) that an independent recogniser of the documented grammar rejects; "
                "every variable use made unbound, every built-in misspelt, every let duplicated, every # operand replaced by a string / repetition / concatenation / $ / empty string, "
                "rule set and Init duplicated, first rule set renamed, unnamed rule mixed in before and after, error type twice, rule-set-local variable used elsewhere; "
                "all compiled by the real macro in one crate with controls interleaved; one evaluation = one definition; oracle: >= 1 rustc error at the mutant's own invocation, none at a control",
        "mutants": len(judged), "rejected": rejected, "controls": sum(1 for l in lines if l[4]),
        "by_kind": {kname: sum(1 for m in judged if m[2] == kname) for kname in sorted(set(m[2] for m in judged))},
        "samples": [{"what": judged[i][0], "definition": judged[i][1]} for i in (0, len(judged) // 2, len(judged) - 1)],
        "exhaustive": True,
    }
    return vlib.finish("C17", tier, "exploration", cov, t0, violations, ["rustc diagnostics are attributed to a definition by the line of its lexer! invocation", "the reference recogniser of the documented grammar (lib/special2.py Rec)"])


def run(prop, tier):
    f = {"C12": c12, "C17": c17}.get(prop)
    if f is None:
        raise Machinery(f"no check implemented for {prop}")
    return f(tier)


def replay(prop, path):
    v = json.load(open(path))
    log("replay file:", json.dumps({k: v.get(k) for k in ("property", "definition", "input", "script", "what", "expected", "observed", "detail")}, indent=1, default=str)[:3000])
    if v.get("lexer") is not None and v.get("input") is not None and "script_raw" in v:
        lk = vlib.lock()
        vlib.ensure_harness()
        return vlib.replay_e2e(prop, v)
    log("not an execution of a generated lexer: re-running the quick check of the property against the working tree (the case is part of its family or regress list)")
    return subprocess.call([os.path.join(vlib.VERIF, "check"), prop, "--tier", "quick"])
