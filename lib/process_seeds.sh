#!/bin/bash
# process_seeds.sh P [also]: confirm + register both changes of agent output /tmp/out-P
P=$1; ALSO=${2:--}
for n in 1 2; do
  [ -f /tmp/out-$P/change_$n.diff ] || continue
  echo "#### $P-$n"
  /verif/lib/confirm_seed.sh /tmp/wt-$P /tmp/out-$P/change_$n.diff seeded_demo_$n 2>&1 | grep -E "^==|test result|passed=|DOES NOT" > /tmp/confirm-$P-$n.txt
  cat /tmp/confirm-$P-$n.txt
  /verif/lib/add_seed.py $P-$n $P /tmp/out-$P $n $ALSO
  cp /tmp/confirm-$P-$n.txt /verif/seeded/$P-$n/confirmation.txt
done
