#!/usr/bin/env python3
"""(Re)create the symlinks that put lexgen's own source files into the pipeline crate, and the
module list derived from lexgen's lib.rs. Idempotent; prints 'changed' if anything was rewritten."""
import os, re, sys

REPO_SRC = "/repo/crates/lexgen/src"
HERE = os.path.dirname(os.path.abspath(__file__))
DEST = os.path.join(HERE, "..", "harness", "pipeline", "src")
OWN = {"main.rs"}

def main():
    dest = os.path.abspath(DEST)
    changed = False
    wanted = {}
    for name in sorted(os.listdir(REPO_SRC)):
        if name in ("lib.rs", "tests.rs"):
            continue
        wanted[name] = os.path.join(REPO_SRC, name)
    for name in os.listdir(dest):
        p = os.path.join(dest, name)
        if os.path.islink(p) and (name not in wanted or os.readlink(p) != wanted[name]):
            os.unlink(p)
            changed = True
    for name, target in wanted.items():
        p = os.path.join(dest, name)
        if name in OWN or name.startswith("px_"):
            sys.exit(f"lexgen source file {name} collides with a harness file")
        if not os.path.islink(p):
            os.symlink(target, p)
            changed = True
    # module list from lib.rs (skip #[cfg(test)] modules)
    lines = open(os.path.join(REPO_SRC, "lib.rs")).read().split("\n")
    mods = []
    for i, l in enumerate(lines):
        m = re.match(r"^(pub(\([a-z]+\))? )?mod (\w+);", l)
        if not m:
            continue
        attrs = []
        j = i - 1
        while j >= 0 and lines[j].startswith("#["):
            attrs.append(lines[j])
            j -= 1
        if any("cfg(test)" in a for a in attrs):
            continue
        mods.append("".join(a + "\n" for a in reversed(attrs)) + f"mod {m.group(3)};\n")
    text = "// generated from /repo/crates/lexgen/src/lib.rs by lib/link_sources.py\n" + "".join(mods)
    p = os.path.join(dest, "px_mods.rs")
    if not os.path.exists(p) or open(p).read() != text:
        open(p, "w").write(text)
        changed = True
    print("changed" if changed else "unchanged")

if __name__ == "__main__":
    main()
