"""Special-purpose checks (C11, C12, C13, C16, C17, C18) and replay."""
import json, os, sys, time, subprocess
import vlib
from vlib import Machinery, log

TRUST = ["rustc/cargo 1.95 and std's Unicode tables (the definition of the predicates)", "unicode-xid 0.2.6 (definition of XID_Start/XID_Continue)"]


def e2e_part(prop, tier, cov, violations, notes, build_is_violation=False):
    e = vlib.run_e2e(prop, tier, build_timeout=1800, run_timeout=3600)
    c = e["counters"]
    cov["executions_real_code"] = c["executions"]
    cov["lexers_built"] = e["lexers_built"]
    cov["lexers_total"] = e["lexers_total"]
    cov["members_seen_real_code"] = c["rewinds"]
    cov["build_s"] = round(e["build_s"], 1)
    cov["run_s"] = round(e["run_s"], 1)
    cov["dumps_bound"] = e["dumps"]["dumps_bound"]
    cov["dumps_unbound"] = len(e["dumps"]["dumps_unbound"])
    cov["traces_validated_against_impl"] = cov.get("traces_validated_against_impl", 0) + c["m_validated"]
    for v in e["violations"]:
        violations.append(v)
    for nb in e["not_built"] + e["screened_out"]:
        msg = str(nb.get("errors") or nb.get("what"))[:400]
        if True:
            violations.append({"definition": nb.get("definition"), "kind": "does-not-build", "what": "well-formed definition does not expand/compile: " + msg, "input": None})
        else:
            notes.append(f"lexer {nb['lexer']} not built ({msg[:120]}): unexplored here, C12's business")
    if e["dumps"]["dumps_unbound"]:
        print(f"ORCHESTRATION-DRIFT: {len(e['dumps']['dumps_unbound'])} lexers: in-process dump differs from the macro's")
    return e


def c11(tier):
    t0 = time.time()
    vlib.ensure_harness()
    q = tier == "quick"
    violations, notes = [], []
    rm = vlib.pexp(["rangemap", 8, 5 if q else 6, 3])
    ce = vlib.pexp(["classexpr", 3, 7 if q else 1])
    for v in rm["violations"] + ce["violations"]:
        v = dict(v)
        v["what"] = f"{v['kind']}: {v['detail']}"
        violations.append(v)
    # classes split against each other across rules (`_` beside ranges beside characters):
    # product exploration over all strings
    multi = []
    for fam in ["range_overlap", "diff_rules", "fold", "high"]:
        r = vlib.pexp(["product", fam])
        multi.append({k: r.get(k) for k in ["family", "defs", "states", "transitions", "exhaustive"]})
        for v in r.get("violations", []):
            if v["kind"] in ("viability", "accept"):
                v = dict(v)
                v["what"] = f"classes of several rules, all strings: {v['kind']}: {v['detail']} (after reading {v['path']!r})"
                violations.append(v)
    cov = {
        "states": rm["unit"]["states"] + rm["tagged"]["states"] + rm["tagged_depth2"]["states"] + sum(m["states"] for m in multi),
        "transitions": rm["unit"]["transitions"] + rm["tagged"]["transitions"] + rm["tagged_depth2"]["transitions"],
        "traces_validated_against_impl": rm["unit"]["transitions"] + rm["tagged"]["sequences"] + rm["tagged_depth2"]["sequences"],
        "rangemap_unit": rm["unit"], "rangemap_tagged": rm["tagged"], "rangemap_tagged_depth2": rm["tagged_depth2"],
        "class_expressions": ce["enumerated"], "class_regress": ce["regress"], "classes_across_rules": multi,
        "samples": ce["enumerated"]["samples"] + [{"rangemap": "BFS from the empty RangeMap<()> over universe 0..8 with insert / insert_ranges / remove_ranges of every sorted disjoint range list, to fixpoint; invariant: sorted, disjoint, non-inverted, point-wise equal to a bitset model"}],
        "exhaustive": rm["unit"]["fixpoint"],
        "explanation": "The state space is explored on the real RangeMap (no model of it): every transition executes the real operation and is compared with a bitset; "
                       "traces_validated_against_impl counts those real executions. Class expressions go through the real add_re -> NFA -> DFA -> codegen.",
    }
    e2e_part("C11", tier, cov, violations, notes, build_is_violation=True)
    cov["notes"] = notes
    return vlib.finish("C11", tier, "model_checking", cov, t0, violations, TRUST + ["interval arithmetic of the reference (cross-checked against bitsets exhaustively over 6 points in setup)"])


def c13(tier):
    t0 = time.time()
    vlib.ensure_harness()
    violations, notes = [], []
    b = vlib.pexp(["builtins"])
    for v in b["violations"]:
        v = dict(v)
        v["what"] = f"{v['kind']}: {v['detail']}"
        violations.append(v)
    cov = {
        "evaluations": b["evaluations"],
        "rule": "automaton level: each of the 20 names and 26 combinations (|, #, # range, _ #) compiled by the real pipeline and compared with the Rust predicate on every one of the 1,112,064 scalar values; "
                "real generated code: per built-in three lexers (per-range arms `$$n`, guard chain or binary-search table `$$n 'x'`, table inside a right-context function `'a' > $$n`) plus combinations, "
                "each run on every scalar value; a case is non-trivial if the class is non-empty and the lexer was built; distinct = distinct (expression, shape)",
        "automaton_level": b["per_expr"],
        "exhaustive": True,
    }
    e = e2e_part("C13", tier, cov, violations, notes, build_is_violation=True)
    cov["evaluations"] += e["counters"]["executions"]
    cov["distinct_nontrivial"] = len(b["per_expr"]) + e["lexers_built"]
    cov["samples"] = [{"expr": x["expr"], "members": x["members"], "ranges": x["ranges"], "differing_scalar_values": x["differing"]} for x in b["per_expr"][:3]] + e["samples"][:2]
    cov["notes"] = notes
    return vlib.finish("C13", tier, "exploration", cov, t0, violations, TRUST)


def c16(tier):
    t0 = time.time()
    vlib.ensure_harness()
    q = tier == "quick"
    violations, notes = [], []
    p = vlib.pexp(["parser", 5 if q else 6, 4, 1 if q else 1])
    for v in p["violations"]:
        v = dict(v)
        v["what"] = f"{v['kind']}: {v['detail']}"
        violations.append(v)
    cov = {
        "evaluations": p["printings_parsed"] + p["factorings_parsed"],
        "distinct_nontrivial": p["distinct_texts"],
        "rule": f"every regex tree of size <= {p['size']} over char, string, set, _, $v, $$builtin, $ (tail only) and * + ? concatenation | #, printed (a) with minimal parentheses, (b) fully parenthesised, "
                "(c) with every subset of redundant parentheses (size <= 4), as rule, as let body and as right context (size <= 3), and (d) with every subtree factored into a let; "
                "parsed by the real make_lexer_parser; the ast::Regex must equal the tree (after substitution for d). distinct = distinct source texts",
        "trees": p["trees"],
        "samples": p["samples"] or [{"tree": "Alt(Char('a'), Cat(Char('b'), Plus(Diff(Any, Char('x')))))", "minimal": "'a' | 'b' _ # 'x'+"}],
        "exhaustive": True,
    }
    # scoping lives in lib.rs: real macro, behaviour against the reference with explicit environments
    e = vlib.run_e2e("C16", tier)
    c = e["counters"]
    cov["executions_real_code"] = c["executions"]
    cov["lexers_built"] = e["lexers_built"]
    cov["dumps_bound"] = e["dumps"]["dumps_bound"]
    cov["traces_validated_against_impl"] = c["m_validated"]
    cov["evaluations"] += c["executions"]
    for v in e["violations"]:
        violations.append(v)
    for v in e["dumps"].get("violations", []):
        v = dict(v)
        v["what"] = f"automaton built by the macro, all strings: {v['kind']}: {v['detail']} (after reading {v['path']!r})"
        violations.append(v)
    for nb in e["not_built"] + e["screened_out"]:
        violations.append({"definition": nb.get("definition"), "kind": "does-not-build", "what": "definition using documented scoping does not expand/compile: " + str(nb.get("errors") or nb.get("what"))[:300], "input": None})
    return vlib.finish("C16", tier, "exploration", cov, t0, violations, TRUST[:1] + ["reference lexer R resolves variables with explicit per-rule-set environments"])


def c18(tier):
    t0 = time.time()
    vlib.ensure_harness()
    p = vlib.run([vlib.TABLEGEN, "10"], timeout=1800, check=False)
    if p.returncode != 0:
        raise Machinery("tablegen failed: " + p.stderr[-2000:])
    r = json.loads(p.stdout.strip().split("\n")[-1])
    violations = []
    for v in r["violations"]:
        v = dict(v)
        v["what"] = f"{v['kind']}: {v['detail']}"
        violations.append(v)
    cov = {
        "evaluations": r["predicate_calls"],
        "distinct_nontrivial": r["nontrivial"],
        "rule": "all 2^10 predicates that are unions of the elementary segments between the cut points 0, 1, 7F, 80, D7FE, D7FF, E000, E001, 10FFFE, 10FFFF, each run through the real generate_char_fn_ranges "
                "(one evaluation = one predicate call); oracle: maximal runs on the segment representation merged across the surrogate gap, scalar end points, sorted, disjoint, non-adjacent; "
                "plus the generator's own 20 (function, name) pairs against a direct scan and against the documented predicate of that name. non-trivial = more than one range, or a range touching D7FF / E000 / 10FFFF",
        "predicates": r["predicates"],
        "distinct_tables": r["distinct_tables"],
        "real_predicates": r["real_predicates"],
        "samples": r["samples"],
        "exhaustive": True,
    }
    return vlib.finish("C18", tier, "exploration", cov, t0, violations, TRUST)


def run(prop, tier):
    f = {"C11": c11, "C13": c13, "C16": c16, "C18": c18}.get(prop)
    if f is None:
        import special2
        return special2.run(prop, tier)
    return f(tier)


def replay(prop, path):
    """Rebuild the single definition of a replay file from the working tree and re-run its case."""
    import special2
    return special2.replay(prop, path)
