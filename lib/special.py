"""Special-purpose checks (C11, C12, C13, C16, C17, C18) and replay."""
import json, os, sys, time
import vlib
from vlib import Machinery, log


def run(prop, tier):
    raise Machinery(f"no check implemented for {prop}")


def replay(prop, path):
    raise Machinery("replay not implemented yet")
