"""Shared orchestration for the lexgen verification checks (python3, stdlib only)."""
import fcntl, hashlib, json, os, re, resource, shutil, subprocess, sys, time

VERIF = os.path.dirname(os.path.dirname(os.path.abspath(__file__)))
WORK = os.environ.get("VERIF_WORK", os.path.join(VERIF, ".work"))
HARNESS = os.path.join(VERIF, "harness")
TARGET = os.path.join(WORK, "target")
TARGET_E2E = os.path.join(WORK, "target-e2e")
PEXP = os.path.join(TARGET, "release", "pexp")
E2E_GEN = os.path.join(TARGET, "release", "e2e_gen")
TABLEGEN = os.path.join(TARGET, "release", "tablegen")
NCPU = os.cpu_count() or 4

ENV = dict(os.environ)
ENV.update({"CARGO_NET_OFFLINE": "true", "CARGO_TERM_COLOR": "never"})
ENV.pop("RUSTFLAGS", None)  # the harness sets its own (via .cargo/config.toml or explicitly)


class Machinery(Exception):
    """The harness itself failed (build error, engine crash). Exit code 2, never a verdict."""


def log(*a):
    print(*a, file=sys.stderr, flush=True)


def lock():
    os.makedirs(WORK, exist_ok=True)
    f = open(os.path.join(WORK, "lock"), "w")
    fcntl.flock(f, fcntl.LOCK_EX)
    return f


def run(cmd, cwd=None, env=None, timeout=None, check=True, capture=True, mem_gb=None):
    def limits():
        if mem_gb:
            b = int(mem_gb * (1 << 30))
            resource.setrlimit(resource.RLIMIT_AS, (b, b))
    try:
        p = subprocess.run(cmd, cwd=cwd, env=env or ENV, timeout=timeout, stdout=subprocess.PIPE if capture else None,
                           stderr=subprocess.PIPE if capture else None, text=True, preexec_fn=limits if mem_gb else None)
    except subprocess.TimeoutExpired as e:
        raise Machinery(f"timeout after {timeout}s: {' '.join(map(str, cmd))[:200]}")
    if check and p.returncode != 0:
        raise Machinery(f"command failed ({p.returncode}): {' '.join(map(str, cmd))[:300]}\n{(p.stderr or '')[-3000:]}")
    return p


def ensure_harness():
    """Build the harness crates from the current /repo tree (cargo decides what is stale)."""
    run([sys.executable, os.path.join(VERIF, "lib", "link_sources.py")])
    lockfile = os.path.join(HARNESS, "Cargo.lock")
    if not os.path.exists(lockfile):
        shutil.copy("/repo/Cargo.lock", lockfile)
    env = dict(ENV)
    env["CARGO_TARGET_DIR"] = TARGET
    p = run(["cargo", "build", "--offline", "--release", "--workspace"], cwd=HARNESS, env=env, check=False, timeout=1800)
    if p.returncode != 0:
        # lock file may be unusable for this dependency set: let cargo re-resolve offline once
        raise Machinery("harness does not build against the current /repo tree:\n" + p.stderr[-4000:])


def pexp(args, timeout=3600):
    p = run([PEXP] + [str(a) for a in args], timeout=timeout, check=False)
    if p.returncode != 0:
        raise Machinery(f"pexp {' '.join(map(str, args))} failed ({p.returncode}): {p.stderr[-2000:]}")
    try:
        return json.loads(p.stdout.strip().split("\n")[-1])
    except Exception as e:
        raise Machinery(f"pexp {' '.join(map(str, args))}: unparsable output: {p.stdout[-500:]} {p.stderr[-500:]}")


def selfcheck(k):
    """Oracle for the oracle: derivative matcher vs naive matcher. A disagreement is a machinery failure."""
    p = run([os.path.join(TARGET, "release", "selfcheck"), str(k), "5"], check=False, timeout=1800)
    try:
        r = json.loads(p.stdout.strip().split("\n")[-1])
    except Exception:
        raise Machinery("selfcheck produced no result: " + p.stderr[-500:])
    if p.returncode != 0 or r["disagreements"]:
        raise Machinery(f"the reference model disagrees with the naive matcher: {r['disagreements'][:3]}")
    return {k_: r[k_] for k_ in ("regexes", "inputs", "comparisons", "accepted")}


# ------------------------------------------------------------------ end-to-end batches

def e2e_dir(prop, tier):
    return os.path.join(WORK, "e2e", f"{prop}-{tier}")


def gen_batch(prop, tier, exclude, nbins=16, only=None, d=None):
    d = d or e2e_dir(prop, tier)
    os.makedirs(d, exist_ok=True)
    p = run([E2E_GEN, prop, tier, d, str(nbins), os.path.join(HARNESS, "refmodel"), ",".join(map(str, sorted(exclude)))] + ([str(only)] if only is not None else []))
    total, bins, prefix = p.stdout.split()
    if not os.path.exists(os.path.join(d, "Cargo.lock")):
        shutil.copy("/repo/Cargo.lock", os.path.join(d, "Cargo.lock"))
    return d, int(total), int(bins)


def build_batch(d, timeout):
    """cargo build of the batch crate with the real macro (hooks on). Returns list of
    (file, line, message) for errors."""
    env = dict(ENV)
    env["CARGO_TARGET_DIR"] = TARGET_E2E
    env["RUSTFLAGS"] = "--cfg lexgen_verif"
    dumps = os.path.join(d, "dumps")
    os.makedirs(dumps, exist_ok=True)
    env["LEXGEN_VERIF_DUMP_DIR"] = dumps
    t0 = time.time()
    try:
        p = subprocess.run(["cargo", "build", "--offline", "--release", "--bins", "-j", str(NCPU), "--message-format=json"],
                           cwd=d, env=env, stdout=subprocess.PIPE, stderr=subprocess.PIPE, text=True, timeout=timeout)
    except subprocess.TimeoutExpired:
        raise Machinery(f"batch build exceeded {timeout}s (definitions are screened in-process first, so this is unexpected)")
    errors = []
    for line in p.stdout.split("\n"):
        if not line.startswith("{"):
            continue
        try:
            m = json.loads(line)
        except Exception:
            continue
        if m.get("reason") != "compiler-message":
            continue
        msg = m["message"]
        if msg.get("level") != "error":
            continue
        spans = [s for s in msg.get("spans", []) if s.get("is_primary")] or msg.get("spans", [])
        # follow macro expansion back to the invocation in the batch file
        loc = None
        for s in spans:
            cur = s
            while cur is not None:
                if cur.get("file_name", "").startswith("src/bin/"):
                    loc = (os.path.basename(cur["file_name"]), cur["line_start"])
                exp = cur.get("expansion")
                cur = exp["span"] if exp else None
        errors.append((loc, msg.get("message", ""), (msg.get("code") or {}).get("code")))
    return p.returncode, errors, time.time() - t0, p.stderr[-3000:]


def attribute(d, errors):
    """Map build errors to lexer ids using lines.txt."""
    ranges = []
    for l in open(os.path.join(d, "lines.txt")):
        f, a, b, gid = l.split()
        ranges.append((f, int(a), int(b), int(gid)))
    out = {}
    unattributed = []
    for loc, msg, code in errors:
        if msg.startswith("aborting due to") or msg.startswith("could not compile"):
            continue
        gid = None
        if loc:
            for f, a, b, g in ranges:
                if f == loc[0] and a <= loc[1] <= b:
                    gid = g
                    break
        if gid is None:
            unattributed.append((loc, msg))
        else:
            out.setdefault(gid, []).append(f"{code or ''} {msg}".strip())
    return out, unattributed


def defs_table(d):
    t = {}
    for l in open(os.path.join(d, "defs.tsv")):
        gid, g, fam, desc = l.rstrip("\n").split("\t", 3)
        t[int(gid)] = (int(g), fam, desc)
    return t


def bin_prefix(d):
    prop, tier = os.path.basename(d).split("-")[:2]
    return f"{prop.lower()}{tier[0]}"


def replay_e2e(prop, v):
    """Targeted replay of one recorded execution: rebuild only that lexer from the working tree and run only that input and script."""
    tier = v.get("tier", "quick")
    d = os.path.join(WORK, "e2e", f"{prop}-{tier}-replay")
    gen_batch(prop, tier, set(), nbins=1, only=int(v["lexer"]), d=d)
    rc, errors, secs, stderr = build_batch(d, 900)
    if rc != 0:
        print(f"replay: the lexer does not build on the current tree: {errors[:3]}")
        return 1
    reports, hangs = run_bins(d, 1, 600, {"VERIF_REPLAY_INPUT": v["input"], "VERIF_REPLAY_SCRIPT": ",".join(map(str, v.get("script_raw", [])))})
    if hangs:
        print("replay: VIOLATION reproduced: the call does not return")
        return 1
    viols = [x for r in reports for g in r["groups"] for x in g["violations"]]
    if viols:
        x = viols[0]
        print(f"replay: VIOLATION reproduced: {x['what']}\n  expected {x['expected'][:600]}\n  observed {x['observed'][:600]}")
        return 1
    print("replay: no violation on the current tree for this definition, input and script")
    return 0


def run_bins(d, bins, timeout, extra_env=None):
    env = dict(ENV)
    env.update(extra_env or {})
    env["VERIF_DUMP_DIR"] = os.path.join(d, "dumps")
    env["VERIF_THREADS"] = str(max(2, (2 * NCPU) // max(1, bins)))
    procs = []
    for b in range(bins):
        exe = os.path.join(TARGET_E2E, "release", f"{bin_prefix(d)}_b{b}")
        def limits():
            b_ = 12 << 30
            resource.setrlimit(resource.RLIMIT_AS, (b_, b_))
        procs.append(subprocess.Popen([exe], env=env, stdout=subprocess.PIPE, stderr=subprocess.PIPE, text=True, preexec_fn=limits))
    reports = []
    hangs = []
    deadline = time.time() + timeout
    for b, p in enumerate(procs):
        try:
            out, err = p.communicate(timeout=max(1, deadline - time.time()))
        except subprocess.TimeoutExpired:
            for q in procs:
                q.kill()
            raise Machinery(f"batch binary b{b} exceeded the wall cap of {timeout}s")
        last = out.strip().split("\n")[-1] if out.strip() else ""
        if p.returncode == 3:
            # the watchdog inside the binary: one next() call did not return
            try:
                hangs.append(json.loads(last)["hang"])
                continue
            except Exception:
                raise Machinery(f"batch binary b{b} exited 3 without a hang report: {out[-300:]}")
        if p.returncode != 0:
            raise Machinery(f"batch binary b{b} crashed ({p.returncode}): {err[-1500:]}")
        try:
            reports.append(json.loads(last))
        except Exception:
            raise Machinery(f"batch binary b{b}: unparsable output {out[-300:]}")
    return reports, hangs


SUM_KEYS = ["lexers", "executions", "steps", "rewinds", "errors", "customs", "switches", "eoi_matches", "latitude_used", "m_validated",
            "m_drift", "m_states", "m_transitions", "distinct_outcomes", "clone_points", "interleavings", "dumps_loaded"]


def run_e2e(prop, tier, build_timeout=900, run_timeout=1800):
    """gen -> screen (in-process, hang-safe) -> build with the real macro -> run -> explore the macro's dumps."""
    res = {"not_built": [], "screened_out": [], "violations": [], "groups": {}, "drift_samples": [], "samples": []}
    d, total, bins = gen_batch(prop, tier, set())
    table = defs_table(d)
    screen = pexp(["screen", f"e2e:{prop}:{tier}"])
    res["screen"] = {k: screen.get(k) for k in ["defs", "hangs", "panics", "max_us", "max_code_len", "slow", "code_digest", "violations", "wall_s"]}
    exclude = set()
    for h in screen.get("hangs", []):
        if h.get("i", -1) >= 0:
            exclude.add(h["i"])
            res["screened_out"].append({"lexer": h["i"], "what": h["what"], "definition": h.get("definition")})
    for pn in screen.get("panics", []):
        exclude.add(pn["i"])
        res["screened_out"].append({"lexer": pn["i"], "what": "macro pipeline panics: " + str(pn.get("panic"))[:300], "definition": pn.get("definition")})
    build_s = 0.0
    for attempt in range(4):
        d, total, bins = gen_batch(prop, tier, exclude)
        rc, errors, secs, stderr = build_batch(d, build_timeout)
        build_s += secs
        if rc == 0:
            break
        failed, unattributed = attribute(d, errors)
        if not failed:
            raise Machinery(f"batch crate for {prop} does not build and the errors cannot be attributed to a lexer:\n{unattributed[:5]}\n{stderr}")
        for gid, msgs in failed.items():
            exclude.add(gid)
            res["not_built"].append({"lexer": gid, "family": table[gid][1], "definition": table[gid][2], "errors": msgs[:3]})
            try:
                os.unlink(os.path.join(d, "dumps", f"L{gid}.dump"))
            except FileNotFoundError:
                pass
    else:
        raise Machinery(f"batch crate for {prop} still does not build after excluding failing lexers")
    res["build_s"] = build_s
    res["lexers_total"] = total
    t0 = time.time()
    for attempt in range(4):
        reports, hangs = run_bins(d, bins, run_timeout)
        if not hangs:
            break
        # a call that never returns is an observation: record it, drop the lexer, run the others
        for h in hangs:
            gid = h["lexer"]
            exclude.add(gid)
            res["violations"].append({"lexer": gid, "family": table[gid][1], "definition": table[gid][2], "input": h["input"], "script_raw": h["script_raw"], "tier": tier,
                                      "kind": "hang", "what": f"a next() call did not return within the watchdog limit (input of {h['input_len']} bytes)", "expected": "every call returns", "observed": "no return"})
        d, total, bins = gen_batch(prop, tier, exclude)
        rc, errors, secs, stderr = build_batch(d, build_timeout)
        build_s += secs
        if rc != 0:
            raise Machinery("batch does not rebuild after excluding a hanging lexer: " + stderr[-500:])
    else:
        raise Machinery("more than 3 rounds of hanging lexers")
    res["lexers_built"] = total - len(exclude)
    res["run_s"] = time.time() - t0
    agg = {k: 0 for k in SUM_KEYS}
    for r in reports:
        for g in r["groups"]:
            for k in SUM_KEYS:
                agg[k] += g.get(k, 0)
            gi = g["group"]
            meta = res["groups"].setdefault(gi, {k: g[k] for k in ["max_len", "alphabet", "max_dev", "dev_positions", "ctors", "inputs_per_lexer"]})
            meta["max_dev_reached"] = max(meta.get("max_dev_reached", 0), g.get("max_dev_reached", 0))
            for v in g["violations"]:
                v["tier"] = tier
                res["violations"].append(v)
            res["drift_samples"].extend(g.get("drift_samples", []))
            if len(res["samples"]) < 3:
                res["samples"].extend(g.get("samples", [])[:1])
        if r.get("dump_errors"):
            raise Machinery(f"macro dump does not parse: {r['dump_errors'][:3]}")
    res["counters"] = agg
    # lexers that were screened out, failed to build or hung have no (current) snapshot
    for gid in exclude:
        try:
            os.unlink(os.path.join(d, "dumps", f"L{gid}.dump"))
        except FileNotFoundError:
            pass
    # all-strings exploration of the automata the real macro built + dump binding
    t0 = time.time()
    res["dumps"] = pexp(["dumps", os.path.join(d, "dumps"), prop, tier], timeout=1800)
    res["dumps_s"] = time.time() - t0
    return res


# ------------------------------------------------------------------ findings, replays, evidence

def load_known():
    p = os.path.join(VERIF, "known_findings.json")
    if not os.path.exists(p):
        return {"findings": [], "fixed": []}
    return json.load(open(p))


def norm_def(s):
    return re.sub(r"\s+", " ", s or "").strip()


def finding_key(v):
    """Identity of a violation for the known-findings file."""
    return {"definition": norm_def(v.get("definition")), "input": v.get("input"), "kind": v.get("kind") or v.get("what_kind")}


def match_known(prop, v, known):
    for f in known.get("findings", []):
        if f.get("property") != prop:
            continue
        k = f.get("key", {})
        ok = True
        for field, val in k.items():
            have = v.get(field)
            if field == "definition":
                have = norm_def(have)
                val = norm_def(val)
            if have != val:
                ok = False
                break
        if ok:
            return f
    return None


def write_replay(prop, v):
    os.makedirs(os.path.join(VERIF, "replays"), exist_ok=True)
    h = hashlib.sha1(json.dumps(v, sort_keys=True, default=str).encode()).hexdigest()[:12]
    path = os.path.join(VERIF, "replays", f"{prop}-{h}.json")
    v = dict(v)
    v["property"] = prop
    if v.get("definition") and "input" in v and "test" not in v:
        v["test"] = unit_test_for(prop, v)
    json.dump(v, open(path, "w"), indent=1, default=str)
    return path


def unit_test_for(prop, v):
    """A plain #[test] that replays the case with the real macro and no explorer."""
    body = v["definition"]
    has_f = "act_f(" in body
    named = "rule Init" in body
    mode = ("named" if named else "plain") + ("_fallible" if has_f else "")
    sets = ["Init"] + sorted(set(re.findall(r"rule (R\d+)", body)), key=lambda s: int(s[1:]))
    return (
        "// add to a crate depending on lexgen, lexgen_util and /verif/harness/refmodel\n"
        "use refmodel::trace::H;\n"
        "lexgen::lexer! {\n    #[derive(Clone)]\n    pub L(H) -> usize;\n" + ("    type Error = u32;\n" if has_f else "")
        + "".join("    " + l + "\n" for l in body.strip().split("\n")) + "}\n"
        f"refmodel::glue!({mode}, L, LRule, [{', '.join(sets)}]);\n"
        "#[test]\nfn replay() {\n"
        f"    let input = {json.dumps(v.get('input', ''))};\n"
        f"    let script: &[u8] = &{v.get('script_raw', [])};\n"
        f"    let args = refmodel::trace::RunArgs {{ input, script, ctor: {v.get('ctor', 0)}, probes: true, nones: 3, no_text: false, split: 0 }};\n"
        "    let (trace, _, _) = run(&args, &refmodel::trace::Mode::Plain);\n"
        f"    // expected (reference): {str(v.get('expected'))[:400]}\n"
        f"    // observed when recorded: {str(v.get('observed'))[:400]}\n"
        "    println!(\"{:#?}\", trace);\n"
        f"    panic!(\"compare with the expectation above: {str(v.get('what'))[:200]}\");\n"
        "}\n"
    )


def write_evidence(prop, tier, level, coverage, wall_s, violations, assumptions):
    os.makedirs(os.path.join(VERIF, "evidence"), exist_ok=True)
    ev = {
        "property_id": prop,
        "tier": tier,
        "seed": int(os.environ.get("VERIF_SEED", "0") or 0),
        "level": level,
        "coverage": coverage,
        "assumptions": assumptions,
        "wall_s": round(wall_s, 2),
        "violations": violations,
    }
    json.dump(ev, open(os.path.join(VERIF, "evidence", f"{prop}.json"), "w"), indent=1, default=str)
    return ev


def finish(prop, tier, level, coverage, t0, violations, assumptions, known_printed=0):
    """Report violations (after known-findings filtering), write evidence, return exit code."""
    known = load_known()
    new = []
    for v in violations:
        f = match_known(prop, v, known)
        if f:
            print(f"KNOWN-FINDING: property={prop} {f.get('what')}")
        else:
            new.append(v)
    # one replay + one line per distinct (definition) — cap the output
    seen = set()
    shown = 0
    for v in new:
        k = (norm_def(v.get("definition")), v.get("kind"))
        if k in seen:
            continue
        seen.add(k)
        if shown < 10:
            path = write_replay(prop, v)
            print(f"VIOLATION property={prop} replay={path}")
            log(f"  {v.get('what') or v.get('kind')}: {norm_def(v.get('definition'))[:160]} input={v.get('input')!r} {str(v.get('detail') or '')[:200]}")
            shown += 1
    coverage = dict(coverage)
    coverage["violations_new"] = len(new)
    coverage["violations_known"] = len(violations) - len(new)
    write_evidence(prop, tier, level, coverage, time.time() - t0, len(new), assumptions)
    return 1 if new else 0
