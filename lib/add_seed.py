#!/usr/bin/env python3
"""add_seed.py <seed id> <property> <agent out dir> <n> <also_run comma list or -> : registers a confirmed seeded change."""
import json, os, shutil, sys
sid, prop, out, n, also = sys.argv[1:6]
d = os.path.join(os.path.dirname(os.path.dirname(os.path.abspath(__file__))), "seeded", sid)
os.makedirs(d, exist_ok=True)
shutil.copy(os.path.join(out, f"change_{n}.diff"), os.path.join(d, "patch.diff"))
demo = os.path.join(out, f"seeded_demo_{n}.rs")
if os.path.exists(demo):
    shutil.copy(demo, os.path.join(d, "demo.rs"))
elif os.path.isdir(os.path.join(out, f"demo_{n}")):
    shutil.copytree(os.path.join(out, f"demo_{n}"), os.path.join(d, "demo"), dirs_exist_ok=True, ignore=shutil.ignore_patterns("target"))
notes = os.path.join(out, f"notes_{n}.md")
if os.path.exists(notes):
    shutil.copy(notes, os.path.join(d, "notes.md"))
meta = {
    "breaks": [prop],
    "also_run": [] if also == "-" else also.split(","),
    "source": "independent sub-agent given only the property text and a scratch worktree",
    "needs": open(notes).read()[:1500] if os.path.exists(notes) else "",
    "confirmed": "lib/confirm_seed.sh in the agent's scratch worktree: demo passes on the unchanged tree, fails with the change; the repository's 119 tests pass with the change",
    "suite_confirmed": True,
}
json.dump(meta, open(os.path.join(d, "meta.json"), "w"), indent=1)
print("registered", d)
