#!/usr/bin/env python3
"""Apply each seeded change under /verif/seeded/*/patch.diff to /repo, run the repository's own
suite (must still pass) and the registered quick checks of the listed properties, undo, and
record which checks reported a violation.  Usage: run_mutants.py [--only id,id] [--all-checks]"""
import json, os, subprocess, sys, time, glob

VERIF = os.path.dirname(os.path.dirname(os.path.abspath(__file__)))
ENV = dict(os.environ, CARGO_NET_OFFLINE="true")


def sh(cmd, **kw):
    return subprocess.run(cmd, shell=True, text=True, stdout=subprocess.PIPE, stderr=subprocess.STDOUT, env=ENV, **kw)


def suite():
    p = sh("cd /repo && cargo test --workspace --no-fail-fast --offline 2>&1 | grep -E '^test result|error(\\[|:)' ", timeout=3600)
    passed = failed = 0
    err = False
    for l in p.stdout.split("\n"):
        if l.startswith("test result"):
            w = l.split()
            passed += int(w[3]); failed += int(w[5])
        elif "error" in l:
            err = True
    return passed, failed, err


def main():
    only = None
    all_checks = "--all-checks" in sys.argv
    if "--only" in sys.argv:
        only = set(sys.argv[sys.argv.index("--only") + 1].split(","))
    assert sh("git -C /repo status --porcelain").stdout.strip() == "", "/repo has uncommitted changes"
    results = {}
    out_path = os.path.join(VERIF, "seeded", "RESULTS.json")
    if os.path.exists(out_path):
        results = json.load(open(out_path))
    for d in sorted(glob.glob(os.path.join(VERIF, "seeded", "*", ""))):
        mid = os.path.basename(os.path.dirname(d))
        if only and mid not in only:
            continue
        meta = json.load(open(os.path.join(d, "meta.json")))
        patch = os.path.join(d, "patch.diff")
        t0 = time.time()
        a = sh(f"git -C /repo apply {patch}")
        if a.returncode != 0:
            results[mid] = {"error": "patch does not apply: " + a.stdout[-300:]}
            print(mid, "PATCH DOES NOT APPLY", a.stdout[-200:])
            continue
        try:
            rec = {"breaks": meta["breaks"], "checks": {}}
            if not meta.get("suite_confirmed"):
                passed, failed, err = suite()
                rec["suite"] = {"passed": passed, "failed": failed, "build_error": err}
            props = sorted(set(meta["breaks"] + meta.get("also_run", [])))
            if all_checks:
                props = [f"C{i:02d}" for i in range(1, 19)]
            for p in props:
                r = sh(f"cd {VERIF} && ./check {p} --tier quick", timeout=7200)
                viol = [l for l in r.stdout.split("\n") if l.startswith("VIOLATION")]
                rec["checks"][p] = {"exit": r.returncode, "violations": len(viol), "first": (viol[0] if viol else ""),
                                    "detail": next((l.strip() for l in r.stdout.split("\n") if l.startswith("  ")), "")[:300],
                                    "other": [l[:200] for l in r.stdout.split("\n") if l.startswith(("MODEL-DRIFT", "ORCHESTRATION-DRIFT", "MACHINERY"))][:2]}
            rec["detected_by"] = [p for p, c in rec["checks"].items() if c["exit"] == 1]
            rec["wall_s"] = round(time.time() - t0, 1)
            results[mid] = rec
            print(mid, "breaks", meta["breaks"], "suite", rec.get("suite"), "detected by", rec["detected_by"], flush=True)
        finally:
            sh("git -C /repo checkout -- . && git -C /repo clean -fdq crates")
            json.dump(results, open(out_path, "w"), indent=1)
    # leave evidence and replays as they were on the unchanged tree
    sh(f"cd {VERIF} && git checkout -- evidence && rm -f replays/*.json")


if __name__ == "__main__":
    main()
